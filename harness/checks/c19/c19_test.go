// C19 — the network API behaves like the embedded API.
// Request sequences against an in-process gRPC server (bufconn, generated
// client stubs) are compared, request by request, with the corresponding
// embedded operation on a twin engine that receives the same operations
// through the embedded API (DESIGN.md 5/C19).
package c19

import (
	"encoding/json"
	"os"
	"runtime/debug"
	"strings"
	"testing"

	"pgregory.net/rapid"

	"verif/internal/ev"
)

const rule = "cases = rapid-drawn (engine config with small memtables, key pool incl. 1- and 4096-byte keys, 10-40 lock-aware requests over " +
	"get/put/del/batch/scan/begin/commit/rollback/txget/txput/txdel/txscan/nodeinfo/stats with several handles, unknown and finished handles, " +
	"out-of-limit keys/values/batches, scan options drawn independently plus, in some cases, the full 3x2x3x4x5 option product as one macro request); oracle = the same operation through the embedded API on a twin engine " +
	"(scans: full embedded listing filtered by the documented meaning), rejected requests must fail and leave map, handles and lock unchanged; " +
	"non-trivial = requests alternate between >= 2 simultaneously open handles, or a boundary-size request (out-of-limit, or exactly at a limit) " +
	"issued while a handle is open is followed by an accepted request on that still-open handle; distinct by FNV-64 of the case JSON"

func TestMain(m *testing.M) {
	ev.Silence()
	// soft limit: the rare 10 MiB values are copied many times on their way
	// through transport, log, memtable and table files
	debug.SetMemoryLimit(384 << 20)
	rec := ev.Init("C19", rule)
	code := m.Run()
	rec.Flush(true)
	os.Exit(code)
}

// Doc is the replay document.
type Doc struct {
	Property string   `json:"property"`
	Case     Case     `json:"case"`
	Failure  *Failure `json:"failure,omitempty"`
	Trace    []string `json:"trace,omitempty"`
}

func trace(c *Case) []string {
	md := newModel()
	var out []string
	for i := range c.Reqs {
		r := &c.Reqs[i]
		v := verdict(c, r, md)
		if v == "ok" {
			md.apply(c, r)
		}
		out = append(out, r.describe(c)+" -> "+v)
	}
	return out
}

// boundary says whether r is a boundary-size request (out of a limit or
// exactly at one).
func boundary(c *Case, r *Req, v string) bool {
	switch v {
	case "reject:key", "reject:value", "reject:batch", "reject:batch-key", "reject:batch-value":
		return true
	}
	if v != "ok" {
		return false
	}
	switch r.Op {
	case "get", "put", "del", "txget", "txput", "txdel":
		if n := len(c.key(r.K)); n == 1 || n == maxKey {
			return true
		}
		if (r.Op == "put" || r.Op == "txput") && vlen(r.V) == maxVal {
			return true
		}
	case "batch":
		if n := len(c.batchOps(r)); n == 0 || n == 1 || n == maxBatch {
			return true
		}
	}
	return false
}

func classify(c *Case) (nontrivial bool, classes []string) {
	md := newModel()
	set := map[string]bool{}
	lastTx := -1
	pending := map[int]bool{} // open handles that saw a boundary-size request while open
	for i := range c.Reqs {
		r := &c.Reqs[i]
		v := verdict(c, r, md)
		open := md.openSlots()
		isTx := strings.HasPrefix(r.Op, "tx") || r.Op == "commit" || r.Op == "rollback"
		furtherUse := v == "ok" && isTx && pending[r.H] // decided before this request marks anything
		if boundary(c, r, v) {
			set["boundary_request"] = true
			if strings.HasPrefix(v, "reject:") {
				set["rejected_size"] = true
			} else {
				set["at_limit_accepted"] = true
			}
			for _, h := range open {
				pending[h] = true
			}
		}
		switch v {
		case "reject:unknown-handle":
			set["unknown_handle_use"] = true
		case "reject:finished-handle":
			set["finished_handle_use"] = true
		case "reject:readonly":
			set["write_on_readonly_handle"] = true
		}
		if strings.HasPrefix(v, "reject:") && len(open) > 0 {
			set["rejected_while_handle_open"] = true
		}
		if v == "ok" {
			if isTx {
				if len(open) >= 2 && lastTx >= 0 && lastTx != r.H && md.slot(lastTx) != nil && md.slot(lastTx).open {
					set["interleaved_handles>=2"] = true
					nontrivial = true
				}
				lastTx = r.H
				if furtherUse {
					// further use of a handle that was open during an earlier boundary-size request
					set["boundary_then_open_handle_use"] = true
					nontrivial = true
				}
			}
			switch r.Op {
			case "scanproduct":
				set["scan_option_product"] = true
				if r.H >= 0 && len(md.slot(r.H).ov) > 0 {
					set["txscan_with_overlay"] = true
				}
			case "scan", "txscan":
				s := scanReq(r.Scan)
				set["scan_"+scanKind(s)] = true
				if s.Limit != 0 {
					set["scan_limit_nonzero"] = true
				}
				if r.Op == "txscan" && len(md.slot(r.H).ov) > 0 {
					set["txscan_with_overlay"] = true
				}
			case "put", "del":
				if len(open) > 0 {
					set["plain_write_while_handle_open"] = true
				}
				if vlen(r.V) == maxVal {
					set["value_10MiB"] = true
				}
			case "commit":
				if len(md.slot(r.H).ov) > 0 {
					set["commit_with_writes"] = true
				}
			case "batch":
				set["batch"] = true
			}
			if r.Direct {
				set["direct_call"] = true
			}
			md.apply(c, r)
		}
	}
	if len(md.slots) >= 2 {
		set["handles>=2"] = true
	}
	if c.CloseProbe {
		set["close_probe"] = true
	}
	if c.Cfg.MemTableSize <= 4096 {
		set["small_memtable"] = true
	}
	for k := range set {
		classes = append(classes, k)
	}
	return
}

func TestProp(t *testing.T) {
	rapid.Check(t, func(t *rapid.T) {
		c := genCase(t)
		nt, classes := classify(&c)
		f, inc, st := runCase(&c)
		ev.R().Case(ev.Hash(&c), nt, classes, func() any { return &c })
		ev.R().Count("requests_issued", st.issued)
		if st.skipped > 0 {
			ev.R().Count("requests_skipped_would_block", st.skipped)
		}
		if inc != nil {
			ev.R().Count("inconclusive:"+inc.why, 1)
			ev.R().Note("inconclusive " + inc.why + ": " + inc.msg)
		}
		if f != nil {
			path := ev.R().Fail(f.Sig, f.Error(), Doc{Property: "C19", Case: c, Failure: f, Trace: trace(&c)})
			t.Fatalf("C19 violated: %v (replay %s)", f, path)
		}
	})
}

// TestReplay re-runs a saved case without the library.
func TestReplay(t *testing.T) {
	file := os.Getenv("VERIF_REPLAY")
	if file == "" {
		t.Skip("no VERIF_REPLAY")
	}
	b, err := os.ReadFile(file)
	if err != nil {
		t.Fatal(err)
	}
	var d Doc
	if err := json.Unmarshal(b, &d); err != nil {
		t.Fatal(err)
	}
	f, inc, st := runCase(&d.Case)
	t.Logf("issued %d skipped %d", st.issued, st.skipped)
	if inc != nil {
		t.Logf("inconclusive: %s: %s", inc.why, inc.msg)
	}
	if f != nil {
		ev.WriteReplayResult(ev.ReplayResult{File: file, Outcome: "fail", Signature: f.Sig, Message: f.Error()})
		t.Logf("replay fails: %v", f)
		return
	}
	ev.WriteReplayResult(ev.ReplayResult{File: file, Outcome: "pass"})
}

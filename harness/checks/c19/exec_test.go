package c19

import (
	"bytes"
	"context"
	"errors"
	"fmt"
	"io"
	"net"
	"os"
	"strings"
	"sync"
	"time"

	"google.golang.org/grpc"
	"google.golang.org/grpc/credentials/insecure"
	"google.golang.org/grpc/test/bufconn"
	"google.golang.org/protobuf/proto"

	"github.com/KevoDB/kevo/pkg/common/iterator"
	"github.com/KevoDB/kevo/pkg/engine"
	"github.com/KevoDB/kevo/pkg/engine/interfaces"
	"github.com/KevoDB/kevo/pkg/grpc/service"
	"github.com/KevoDB/kevo/pkg/transaction"
	"github.com/KevoDB/kevo/pkg/version"
	pb "github.com/KevoDB/kevo/proto/kevo"

	"verif/internal/drive"
	"verif/internal/ev"
)

// Failure is an oracle failure (service vs. embedded API).
type Failure struct {
	Step int    `json:"step"` // request index; len(reqs) = final comparison
	Sig  string `json:"sig"`
	Msg  string `json:"msg"`
}

func (f *Failure) Error() string { return fmt.Sprintf("step %d: %s: %s", f.Step, f.Sig, f.Msg) }

// errInconclusive stops a case without a verdict (the embedded engine itself
// deviates from the model, an embedded operation failed, ...). Counted, never
// reported as a violation of C19.
type inconclusive struct{ why, msg string }

// hangGuard is NOT an oracle bound: the executor only issues requests that
// cannot wait for the transaction lock (verified with a lock probe before
// every request). It only keeps a mutated service from wedging the process.
const hangGuard = 60 * time.Second

// slowCase: see runCase.
const slowCase = 12 * time.Second

type kv struct{ k, v []byte }

type xslot struct {
	id   string
	ro   bool
	open bool
	txB  interfaces.Transaction
}

type exec struct {
	c      *Case
	md     *model
	dirA   string
	dirB   string
	A, B   *engine.EngineFacade
	reg    transaction.Registry
	srv    *service.KevoServiceServer
	gs     *grpc.Server
	conn   *grpc.ClientConn
	cl     pb.KevoServiceClient
	lockA  *sync.RWMutex
	lockB  *sync.RWMutex
	slots  []*xslot
	ids    map[string]bool
	cache  map[drive.Val][]byte
	closed bool
}

var overBuf = make([]byte, maxVal+1)

// valBytes renders a value descriptor (nil descriptor = no value given).
func (x *exec) valBytes(v *drive.Val) []byte {
	if v == nil || v.Nil {
		return nil
	}
	if v.Len > maxVal {
		return overBuf[:v.Len] // only ever sent in requests that must be rejected
	}
	if v.Len >= 32*1024 {
		if b, ok := x.cache[*v]; ok {
			return b
		}
		b := v.Bytes()
		x.cache[*v] = b
		return b
	}
	return v.Bytes()
}

func newExec(c *Case) (*exec, error) {
	x := &exec{c: c, md: newModel(), ids: map[string]bool{}, cache: map[drive.Val][]byte{}}
	var err error
	if x.dirA, err = os.MkdirTemp("", "c19a-"); err != nil {
		return nil, err
	}
	if x.dirB, err = os.MkdirTemp("", "c19b-"); err != nil {
		return nil, err
	}
	if x.A, err = drive.Open(x.dirA, c.Cfg); err != nil {
		return nil, fmt.Errorf("open A: %w", err)
	}
	if x.B, err = drive.Open(x.dirB, c.Cfg); err != nil {
		return nil, fmt.Errorf("open B: %w", err)
	}
	x.lockA = x.A.GetTransactionManager().GetRWLock()
	x.lockB = x.B.GetTransactionManager().GetRWLock()
	x.reg = transaction.NewRegistry()
	if c.Topo != nil {
		x.srv = service.NewKevoServiceServer(x.A, x.reg, topoProvider{c.Topo})
	} else {
		x.srv = service.NewKevoServiceServer(x.A, x.reg, nil)
	}
	lis := bufconn.Listen(64 << 10)
	x.gs = grpc.NewServer()
	pb.RegisterKevoServiceServer(x.gs, x.srv)
	go func() { _ = x.gs.Serve(lis) }()
	x.conn, err = grpc.NewClient("passthrough:///bufnet",
		grpc.WithContextDialer(func(ctx context.Context, _ string) (net.Conn, error) { return lis.DialContext(ctx) }),
		grpc.WithTransportCredentials(insecure.NewCredentials()))
	if err != nil {
		return nil, err
	}
	x.cl = pb.NewKevoServiceClient(x.conn)
	return x, nil
}

func (x *exec) close() {
	// release every lock so that Close cannot wait
	for _, s := range x.slots {
		if s.open && s.txB != nil {
			_ = s.txB.Rollback()
		}
	}
	if x.reg != nil {
		ctx, cancel := context.WithTimeout(context.Background(), 5*time.Second)
		_ = x.reg.GracefulShutdown(ctx)
		cancel()
	}
	if x.conn != nil {
		_ = x.conn.Close()
	}
	if x.gs != nil {
		x.gs.Stop()
	}
	if x.A != nil {
		_ = x.A.Close()
	}
	if x.B != nil {
		_ = x.B.Close()
	}
	if x.dirA != "" {
		_ = os.RemoveAll(x.dirA)
	}
	if x.dirB != "" {
		_ = os.RemoveAll(x.dirB)
	}
}

// ---------------------------------------------------------------------------
// calling the service

type fakeStream[T any] struct {
	grpc.ServerStream
	ctx context.Context
	out []*T
	mk  func() *T
}

func (f *fakeStream[T]) Context() context.Context { return f.ctx }

// Send copies the message at send time, as the transport's marshalling does.
func (f *fakeStream[T]) Send(m *T) error {
	b, err := proto.Marshal(any(m).(proto.Message))
	if err != nil {
		return err
	}
	n := f.mk()
	if err := proto.Unmarshal(b, any(n).(proto.Message)); err != nil {
		return err
	}
	f.out = append(f.out, n)
	return nil
}

// wire passes a message through the protobuf encoding, so that a direct call
// sees exactly the message the transport would deliver.
func wire[T any](m *T, mk func() *T) *T {
	b, err := proto.Marshal(any(m).(proto.Message))
	if err != nil {
		panic(err)
	}
	n := mk()
	if err := proto.Unmarshal(b, any(n).(proto.Message)); err != nil {
		panic(err)
	}
	return n
}

var errBlocked = errors.New("c19: request did not return (hang guard)")

// guarded runs f and gives up after hangGuard.
func guarded(f func() error) error {
	done := make(chan error, 1)
	go func() { done <- f() }()
	t := time.NewTimer(hangGuard)
	defer t.Stop()
	select {
	case err := <-done:
		return err
	case <-t.C:
		return errBlocked
	}
}

// sres is the observable result of one service request.
type sres struct {
	err   error
	ok    bool // Success field (writes, commit, rollback)
	found bool
	val   []byte
	kvs   []kv
	id    string
	info  *pb.GetNodeInfoResponse
	stats *pb.GetStatsResponse
}

func unary[Q, R any](x *exec, direct bool, q *Q, mkq func() *Q, mkr func() *R,
	viaConn func(context.Context, *Q, ...grpc.CallOption) (*R, error),
	viaSrv func(context.Context, *Q) (*R, error)) (*R, error) {
	var out *R
	err := guarded(func() error {
		ctx, cancel := context.WithTimeout(context.Background(), 2*hangGuard)
		defer cancel()
		var e error
		if direct {
			var r *R
			r, e = viaSrv(ctx, wire(q, mkq))
			if r != nil {
				out = wire(r, mkr)
			}
		} else {
			out, e = viaConn(ctx, q)
		}
		return e
	})
	return out, err
}

func (x *exec) handleID(h int) string {
	if h >= 0 && h < len(x.slots) {
		return x.slots[h].id
	}
	switch h {
	case -1:
		return ""
	case -2:
		return "tx-0"
	case -3:
		return "tx-18446744073709551615"
	}
	return fmt.Sprintf("tx-%d", 1000000+h)
}

func scanReq(s *Scan) *Scan {
	if s == nil {
		return &Scan{}
	}
	return s
}

// call issues r to the service and returns what a client observes.
func (x *exec) call(r *Req, direct bool) sres {
	c := x.c
	var res sres
	switch r.Op {
	case "get":
		out, err := unary(x, direct, &pb.GetRequest{Key: c.key(r.K)}, func() *pb.GetRequest { return &pb.GetRequest{} },
			func() *pb.GetResponse { return &pb.GetResponse{} }, x.cl.Get, x.srv.Get)
		res.err = err
		if err == nil {
			res.found, res.val = out.Found, out.Value
		}
	case "put":
		out, err := unary(x, direct, &pb.PutRequest{Key: c.key(r.K), Value: x.valBytes(r.V)}, func() *pb.PutRequest { return &pb.PutRequest{} },
			func() *pb.PutResponse { return &pb.PutResponse{} }, x.cl.Put, x.srv.Put)
		res.err = err
		if err == nil {
			res.ok = out.Success
		}
	case "del":
		out, err := unary(x, direct, &pb.DeleteRequest{Key: c.key(r.K)}, func() *pb.DeleteRequest { return &pb.DeleteRequest{} },
			func() *pb.DeleteResponse { return &pb.DeleteResponse{} }, x.cl.Delete, x.srv.Delete)
		res.err = err
		if err == nil {
			res.ok = out.Success
		}
	case "batch":
		q := &pb.BatchWriteRequest{}
		for _, o := range c.batchOps(r) {
			op := &pb.Operation{Type: pb.Operation_PUT, Key: c.key(o.K)}
			if o.Del {
				op.Type = pb.Operation_DELETE
			} else {
				op.Value = x.valBytes(o.V)
			}
			q.Operations = append(q.Operations, op)
		}
		out, err := unary(x, direct, q, func() *pb.BatchWriteRequest { return &pb.BatchWriteRequest{} },
			func() *pb.BatchWriteResponse { return &pb.BatchWriteResponse{} }, x.cl.BatchWrite, x.srv.BatchWrite)
		res.err = err
		if err == nil {
			res.ok = out.Success
		}
	case "begin":
		out, err := unary(x, direct, &pb.BeginTransactionRequest{ReadOnly: r.RO}, func() *pb.BeginTransactionRequest { return &pb.BeginTransactionRequest{} },
			func() *pb.BeginTransactionResponse { return &pb.BeginTransactionResponse{} }, x.cl.BeginTransaction, x.srv.BeginTransaction)
		res.err = err
		if err == nil {
			res.id = out.TransactionId
		}
	case "commit":
		out, err := unary(x, direct, &pb.CommitTransactionRequest{TransactionId: x.handleID(r.H)}, func() *pb.CommitTransactionRequest { return &pb.CommitTransactionRequest{} },
			func() *pb.CommitTransactionResponse { return &pb.CommitTransactionResponse{} }, x.cl.CommitTransaction, x.srv.CommitTransaction)
		res.err = err
		if err == nil {
			res.ok = out.Success
		}
	case "rollback":
		out, err := unary(x, direct, &pb.RollbackTransactionRequest{TransactionId: x.handleID(r.H)}, func() *pb.RollbackTransactionRequest { return &pb.RollbackTransactionRequest{} },
			func() *pb.RollbackTransactionResponse { return &pb.RollbackTransactionResponse{} }, x.cl.RollbackTransaction, x.srv.RollbackTransaction)
		res.err = err
		if err == nil {
			res.ok = out.Success
		}
	case "txget":
		out, err := unary(x, direct, &pb.TxGetRequest{TransactionId: x.handleID(r.H), Key: c.key(r.K)}, func() *pb.TxGetRequest { return &pb.TxGetRequest{} },
			func() *pb.TxGetResponse { return &pb.TxGetResponse{} }, x.cl.TxGet, x.srv.TxGet)
		res.err = err
		if err == nil {
			res.found, res.val = out.Found, out.Value
		}
	case "txput":
		out, err := unary(x, direct, &pb.TxPutRequest{TransactionId: x.handleID(r.H), Key: c.key(r.K), Value: x.valBytes(r.V)}, func() *pb.TxPutRequest { return &pb.TxPutRequest{} },
			func() *pb.TxPutResponse { return &pb.TxPutResponse{} }, x.cl.TxPut, x.srv.TxPut)
		res.err = err
		if err == nil {
			res.ok = out.Success
		}
	case "txdel":
		out, err := unary(x, direct, &pb.TxDeleteRequest{TransactionId: x.handleID(r.H), Key: c.key(r.K)}, func() *pb.TxDeleteRequest { return &pb.TxDeleteRequest{} },
			func() *pb.TxDeleteResponse { return &pb.TxDeleteResponse{} }, x.cl.TxDelete, x.srv.TxDelete)
		res.err = err
		if err == nil {
			res.ok = out.Success
		}
	case "nodeinfo":
		out, err := unary(x, direct, &pb.GetNodeInfoRequest{}, func() *pb.GetNodeInfoRequest { return &pb.GetNodeInfoRequest{} },
			func() *pb.GetNodeInfoResponse { return &pb.GetNodeInfoResponse{} }, x.cl.GetNodeInfo, x.srv.GetNodeInfo)
		res.err, res.info = err, out
	case "stats":
		out, err := unary(x, direct, &pb.GetStatsRequest{}, func() *pb.GetStatsRequest { return &pb.GetStatsRequest{} },
			func() *pb.GetStatsResponse { return &pb.GetStatsResponse{} }, x.cl.GetStats, x.srv.GetStats)
		res.err, res.stats = err, out
	case "scan":
		s := scanReq(r.Scan)
		q := &pb.ScanRequest{Prefix: s.Prefix, Suffix: s.Suffix, StartKey: s.Start, EndKey: s.End, Limit: s.Limit}
		res.err = guarded(func() error {
			ctx, cancel := context.WithTimeout(context.Background(), 2*hangGuard)
			defer cancel()
			if direct {
				fs := &fakeStream[pb.ScanResponse]{ctx: ctx, mk: func() *pb.ScanResponse { return &pb.ScanResponse{} }}
				err := x.srv.Scan(wire(q, func() *pb.ScanRequest { return &pb.ScanRequest{} }), fs)
				for _, m := range fs.out {
					res.kvs = append(res.kvs, kv{m.Key, m.Value})
				}
				return err
			}
			st, err := x.cl.Scan(ctx, q)
			if err != nil {
				return err
			}
			for {
				m, err := st.Recv()
				if err == io.EOF {
					return nil
				}
				if err != nil {
					return err
				}
				res.kvs = append(res.kvs, kv{m.Key, m.Value})
			}
		})
	case "txscan":
		s := scanReq(r.Scan)
		q := &pb.TxScanRequest{TransactionId: x.handleID(r.H), Prefix: s.Prefix, Suffix: s.Suffix, StartKey: s.Start, EndKey: s.End, Limit: s.Limit}
		res.err = guarded(func() error {
			ctx, cancel := context.WithTimeout(context.Background(), 2*hangGuard)
			defer cancel()
			if direct {
				fs := &fakeStream[pb.TxScanResponse]{ctx: ctx, mk: func() *pb.TxScanResponse { return &pb.TxScanResponse{} }}
				err := x.srv.TxScan(wire(q, func() *pb.TxScanRequest { return &pb.TxScanRequest{} }), fs)
				for _, m := range fs.out {
					res.kvs = append(res.kvs, kv{m.Key, m.Value})
				}
				return err
			}
			st, err := x.cl.TxScan(ctx, q)
			if err != nil {
				return err
			}
			for {
				m, err := st.Recv()
				if err == io.EOF {
					return nil
				}
				if err != nil {
					return err
				}
				res.kvs = append(res.kvs, kv{m.Key, m.Value})
			}
		})
	default:
		res.err = fmt.Errorf("c19: unknown op %q", r.Op)
	}
	return res
}

// ---------------------------------------------------------------------------
// the embedded side

// fullScan walks an embedded iterator from the first entry, skipping deletion
// markers, and copies what it yields.
func fullScan(it iterator.Iterator) []kv {
	var out []kv
	for it.SeekToFirst(); it.Valid(); it.Next() {
		if it.IsTombstone() {
			continue
		}
		out = append(out, kv{append([]byte{}, it.Key()...), append([]byte{}, it.Value()...)})
	}
	return out
}

// embeddedLive is what an embedded caller sees when it scans engine e inside a
// read-only transaction.
func embeddedLive(e *engine.EngineFacade) ([]kv, error) {
	tx, err := e.BeginTransaction(true)
	if err != nil {
		return nil, err
	}
	defer tx.Rollback()
	return fullScan(tx.NewIterator()), nil
}

func getRes(v []byte, err error) (found bool, val []byte, bad error) {
	if err == nil {
		return true, v, nil
	}
	if drive.IsNotFound(err) {
		return false, nil, nil
	}
	return false, nil, err
}

// ---------------------------------------------------------------------------
// comparison helpers

func brief(b []byte) string {
	if len(b) <= 12 {
		return fmt.Sprintf("%x(len %d)", b, len(b))
	}
	return fmt.Sprintf("%x..(len %d)", b[:12], len(b))
}

func briefKVs(l []kv) string {
	s := fmt.Sprintf("%d[", len(l))
	for i, e := range l {
		if i == 8 {
			s += " ..."
			break
		}
		s += fmt.Sprintf(" %s=%s", brief(e.k), brief(e.v))
	}
	return s + " ]"
}

func sameKVs(a, b []kv) bool {
	if len(a) != len(b) {
		return false
	}
	for i := range a {
		if !bytes.Equal(a[i].k, b[i].k) || !bytes.Equal(a[i].v, b[i].v) {
			return false
		}
	}
	return true
}

func ascending(l []kv) bool {
	for i := 1; i < len(l); i++ {
		if bytes.Compare(l[i-1].k, l[i].k) >= 0 {
			return false
		}
	}
	return true
}

// expectScan applies the documented meaning of the options to the full
// embedded listing. Only for kinds neither / filters / range.
func expectScan(full []kv, s *Scan) []kv {
	kind := scanKind(s)
	var out []kv
	for _, e := range full {
		if s.Limit > 0 && int32(len(out)) >= s.Limit {
			break
		}
		if matchScan(s, e.k, kind == "range") {
			out = append(out, e)
		}
	}
	return out
}

// checkScan compares a scan answer with the embedded listing. what = detail
// for the signature.
func checkScan(got []kv, full []kv, s *Scan) (what, msg string) {
	kind := scanKind(s)
	if !ascending(got) {
		return "not-strictly-ascending", briefKVs(got)
	}
	if s.Limit > 0 && int32(len(got)) > s.Limit {
		return "over-limit", fmt.Sprintf("limit %d, got %s", s.Limit, briefKVs(got))
	}
	if kind != "mixed" {
		want := expectScan(full, s)
		if !sameKVs(got, want) {
			what = "differs"
			switch {
			case len(got) > len(want):
				what = "extra-entries"
			case len(got) < len(want):
				what = "missing-entries"
			}
			return what, fmt.Sprintf("got %s want %s", briefKVs(got), briefKVs(want))
		}
		return "", ""
	}
	// range + filter together has no documented meaning: every entry must be a
	// live entry with its current value and satisfy every filter given.
	idx := map[string][]byte{}
	for _, e := range full {
		idx[string(e.k)] = e.v
	}
	for _, e := range got {
		v, ok := idx[string(e.k)]
		if !ok {
			return "not-live", fmt.Sprintf("key %s is not a live key of the embedded listing %s", brief(e.k), briefKVs(full))
		}
		if !bytes.Equal(v, e.v) {
			return "wrong-value", fmt.Sprintf("key %s value %s, embedded %s", brief(e.k), brief(e.v), brief(v))
		}
		if !matchScan(s, e.k, false) {
			return "filter-not-applied", fmt.Sprintf("key %s does not match prefix %s / suffix %s", brief(e.k), brief(s.Prefix), brief(s.Suffix))
		}
	}
	return "", ""
}

func lockState(l *sync.RWMutex) string {
	if l.TryLock() {
		l.Unlock()
		return "free"
	}
	if l.TryRLock() {
		l.RUnlock()
		return "readers"
	}
	return "writer"
}

// modelKVs renders the model's listing for handle h.
func (x *exec) modelKVs(h int) []kv {
	var out []kv
	for _, e := range x.md.live(h) {
		out = append(out, kv{[]byte(e.k), x.valBytes(e.v)})
	}
	return out
}

// ---------------------------------------------------------------------------
// state observation through the embedded API on both engines

// observe compares, key by key, what the embedded API reads on the served
// engine (and, for open handles, on the registry's transaction objects) with
// the twin engine and the model.
//
// keys == nil: every pool key (after rejected requests and at the end: "no
// side effects" is a statement about the whole state); otherwise only the
// listed pool indices (the keys an accepted write touched; everything else is
// covered by later reads and the final comparison). Handles, registry and
// lock state are always checked.
func (x *exec) observe(step int, ctx string, keys []int) (*Failure, *inconclusive) {
	all := keys == nil
	want := map[int]bool{}
	for _, i := range keys {
		want[i] = true
	}
	for i, k := range x.c.Keys {
		if !all && !want[i] {
			continue
		}
		af, av, aerr := getRes(x.A.Get(k))
		bf, bv, berr := getRes(x.B.Get(k))
		if berr != nil {
			return nil, &inconclusive{"embedded-get-error", berr.Error()}
		}
		mv, mf := x.md.get(-1, k)
		if bf != mf || (bf && !bytes.Equal(bv, x.valBytes(mv))) {
			return nil, &inconclusive{"embedded-differs-from-model", fmt.Sprintf("step %d key k%d: embedded found=%v %s model found=%v %s", step, i, bf, brief(bv), mf, brief(x.valBytes(mv)))}
		}
		if aerr != nil || af != bf || (af && !bytes.Equal(av, bv)) {
			return &Failure{step, "state:" + ctx, fmt.Sprintf("key k%d: served engine found=%v %s err=%v, embedded twin found=%v %s", i, af, brief(av), aerr, bf, brief(bv))}, nil
		}
	}
	for h, s := range x.slots {
		txA, present := x.reg.Get(s.id)
		if !s.open {
			if present {
				// corroborate through the service: a finished handle must be unusable
				r := x.call(&Req{Op: "txget", H: h, K: 0}, x.md.hasBig())
				if r.err == nil {
					return &Failure{step, "finished-handle-usable:" + ctx, fmt.Sprintf("handle %s (slot %d) is finished but still registered; TxGet on it answered found=%v without error", s.id, h, r.found)}, nil
				}
			}
			continue
		}
		if !present {
			r := x.call(&Req{Op: "txget", H: h, K: 0}, x.md.hasBig())
			if r.err != nil {
				return &Failure{step, "open-handle-lost:" + ctx, fmt.Sprintf("handle %s (slot %d) is open but no longer registered; TxGet on it fails: %v", s.id, h, r.err)}, nil
			}
			continue
		}
		for i, k := range x.c.Keys {
			if !all && !want[i] {
				continue
			}
			af, av, aerr := getRes(txA.Get(k))
			bf, bv, berr := getRes(s.txB.Get(k))
			if berr != nil {
				return nil, &inconclusive{"embedded-txget-error", berr.Error()}
			}
			mv, mf := x.md.get(h, k)
			if bf != mf || (bf && !bytes.Equal(bv, x.valBytes(mv))) {
				return nil, &inconclusive{"embedded-differs-from-model", fmt.Sprintf("step %d slot %d key k%d: embedded tx found=%v %s model found=%v %s", step, h, i, bf, brief(bv), mf, brief(x.valBytes(mv)))}
			}
			if aerr != nil || af != bf || (af && !bytes.Equal(av, bv)) {
				return &Failure{step, "handle-state:" + ctx, fmt.Sprintf("slot %d key k%d: served transaction found=%v %s err=%v, embedded twin found=%v %s", h, i, af, brief(av), aerr, bf, brief(bv))}, nil
			}
		}
	}
	if got, want := lockState(x.lockA), x.md.lock(); got != want {
		return &Failure{step, "lock:" + ctx + ":" + got + "-want-" + want, fmt.Sprintf("transaction lock of the served engine is %q, open handles require %q", got, want)}, nil
	}
	if got, want := lockState(x.lockB), x.md.lock(); got != want {
		return nil, &inconclusive{"twin-lock-state", fmt.Sprintf("twin lock %q want %q", got, want)}
	}
	return nil, nil
}

// touched lists the pool indices an accepted request can change (non-nil).
func (x *exec) touched(r *Req) []int {
	n := len(x.c.Keys)
	out := []int{}
	switch r.Op {
	case "put", "del", "txput", "txdel":
		if r.K >= 0 {
			out = append(out, r.K%n)
		}
	case "batch":
		if r.Fill > 0 {
			return nil
		}
		for _, o := range r.Batch {
			if o.K >= 0 {
				out = append(out, o.K%n)
			}
		}
	case "commit", "rollback":
		return nil // the whole overlay becomes visible / disappears
	}
	return out
}

func (x *exec) quiesce() {
	drive.Quiesce(x.A)
	drive.Quiesce(x.B)
}

// ---------------------------------------------------------------------------
// one request

func (x *exec) needsDirect(r *Req) bool {
	if r.Direct {
		return true
	}
	if vlen(r.V) > 2<<20 {
		return true
	}
	for _, o := range r.Batch {
		if vlen(o.V) > 2<<20 {
			return true
		}
	}
	return x.md.hasBig()
}

func errStr(err error) string {
	if err == nil {
		return "<nil>"
	}
	s := err.Error()
	if len(s) > 200 {
		s = s[:200]
	}
	return s
}

// do executes request i. skipped=true: the request would wait for the lock by
// design and was not issued.
func (x *exec) do(i int) (f *Failure, inc *inconclusive, skipped bool) {
	c, r := x.c, &x.c.Reqs[i]
	v := verdict(c, r, x.md)
	if v == "blocks" || v == "reject:unknown-op" {
		return nil, nil, true
	}
	direct := x.needsDirect(r)
	fail := func(what, format string, a ...any) *Failure {
		return &Failure{i, r.Op + ":" + what, r.describe(c) + ": " + fmt.Sprintf(format, a...)}
	}

	if v != "ok" {
		// must fail without side effects; the embedded twin is not touched
		res := x.call(r, direct)
		if res.err == errBlocked {
			return fail(v+":blocked", "request did not return within %v", hangGuard), nil, false
		}
		if res.err == nil {
			return fail(v+":accepted", "request must be rejected (%s) but succeeded (success=%v found=%v entries=%d)", v, res.ok, res.found, len(res.kvs)), nil, false
		}
		x.quiesce()
		f, inc := x.observe(i, r.Op+":"+v, nil)
		return f, inc, false
	}

	// ---- accepted request: the corresponding embedded operation on the twin
	var (
		bErr   error
		bFound bool
		bVal   []byte
		bFull  []kv // full embedded listing for scans
	)
	switch r.Op {
	case "get":
		bFound, bVal, bErr = getRes(x.B.Get(c.key(r.K)))
	case "put":
		bErr = x.B.Put(c.key(r.K), x.valBytes(r.V))
	case "del":
		bErr = x.B.Delete(c.key(r.K))
	case "batch":
		ops := c.batchOps(r)
		if len(ops) > 0 {
			tx, err := x.B.BeginTransaction(false)
			if err != nil {
				return nil, &inconclusive{"embedded-begin-error", err.Error()}, false
			}
			for _, o := range ops {
				if o.Del {
					bErr = tx.Delete(c.key(o.K))
				} else {
					bErr = tx.Put(c.key(o.K), x.valBytes(o.V))
				}
				if bErr != nil {
					break
				}
			}
			if bErr != nil {
				_ = tx.Rollback()
			} else {
				bErr = tx.Commit()
			}
		}
	case "scan", "stats":
		bFull, bErr = embeddedLive(x.B)
	case "scanproduct":
		if r.H < 0 {
			bFull, bErr = embeddedLive(x.B)
		} else {
			bFull = fullScan(x.slots[r.H].txB.NewIterator())
		}
	case "begin":
		tx, err := x.B.BeginTransaction(r.RO)
		if err != nil {
			return nil, &inconclusive{"embedded-begin-error", err.Error()}, false
		}
		x.slots = append(x.slots, &xslot{ro: r.RO, open: true, txB: tx})
	case "commit":
		bErr = x.slots[r.H].txB.Commit()
	case "rollback":
		bErr = x.slots[r.H].txB.Rollback()
	case "txget":
		bFound, bVal, bErr = getRes(x.slots[r.H].txB.Get(c.key(r.K)))
	case "txput":
		bErr = x.slots[r.H].txB.Put(c.key(r.K), x.valBytes(r.V))
	case "txdel":
		bErr = x.slots[r.H].txB.Delete(c.key(r.K))
	case "txscan":
		bFull = fullScan(x.slots[r.H].txB.NewIterator())
	}

	// ---- the model's answer (three-way: embedded vs model is not C19's business)
	var mFound bool
	var mVal []byte
	var mFull []kv
	switch r.Op {
	case "get":
		mv, ok := x.md.get(-1, c.key(r.K))
		mFound, mVal = ok, x.valBytes(mv)
	case "txget":
		mv, ok := x.md.get(r.H, c.key(r.K))
		mFound, mVal = ok, x.valBytes(mv)
	case "scan", "stats":
		mFull = x.modelKVs(-1)
	case "txscan":
		mFull = x.modelKVs(r.H)
	case "scanproduct":
		h := r.H
		if h < 0 {
			h = -1
		}
		mFull = x.modelKVs(h)
	}
	x.md.apply(c, r)
	if r.Op == "scanproduct" {
		return x.scanProduct(i, r, direct, bFull, bErr, mFull)
	}
	if r.Op == "commit" || r.Op == "rollback" {
		x.slots[r.H].open = false
	}

	// ---- the service
	res := x.call(r, direct)
	if res.err == errBlocked {
		return fail("blocked", "request did not return within %v although no open handle makes it wait", hangGuard), nil, false
	}

	if bErr != nil {
		// the embedded operation itself failed: the service has to fail too
		ev.R().Count("embedded_op_failed", 1)
		if res.err == nil {
			return fail("ok-but-embedded-fails", "embedded operation fails with %q, service reports success", errStr(bErr)), nil, false
		}
		return nil, &inconclusive{"embedded-op-failed", r.describe(c) + ": " + errStr(bErr)}, false
	}
	if res.err != nil {
		if r.Op == "begin" {
			x.slots[len(x.slots)-1].id = "<begin failed>"
		}
		return fail("fails-but-embedded-ok", "service fails with %q, the embedded operation succeeds", errStr(res.err)), nil, false
	}

	switch r.Op {
	case "get", "txget":
		if bFound != mFound || (bFound && !bytes.Equal(bVal, mVal)) {
			return nil, &inconclusive{"embedded-differs-from-model", fmt.Sprintf("step %d %s: embedded found=%v %s model found=%v %s", i, r.describe(c), bFound, brief(bVal), mFound, brief(mVal))}, false
		}
		if res.found != bFound || (bFound && !bytes.Equal(res.val, bVal)) {
			what := "wrong-value"
			if res.found != bFound {
				what = fmt.Sprintf("found=%v-want-%v", res.found, bFound)
			}
			return fail(what, "service found=%v %s, embedded found=%v %s", res.found, brief(res.val), bFound, brief(bVal)), nil, false
		}
	case "put", "del", "batch", "commit", "rollback", "txput", "txdel":
		if !res.ok {
			return fail("success-false", "no error but success=false; the embedded operation succeeds"), nil, false
		}
	case "begin":
		s := x.slots[len(x.slots)-1]
		s.id = res.id
		if res.id == "" || x.ids[res.id] {
			return fail("handle-not-fresh", "handle %q is empty or was handed out before", res.id), nil, false
		}
		x.ids[res.id] = true
	case "scan", "txscan":
		if !sameKVs(bFull, mFull) || !ascending(bFull) {
			return nil, &inconclusive{"embedded-differs-from-model", fmt.Sprintf("step %d %s: embedded listing %s model %s", i, r.describe(c), briefKVs(bFull), briefKVs(mFull))}, false
		}
		s := scanReq(r.Scan)
		if what, msg := checkScan(res.kvs, bFull, s); what != "" {
			return fail(scanKind(s)+":"+what, "%s", msg), nil, false
		}
	case "stats":
		if !sameKVs(bFull, mFull) {
			return nil, &inconclusive{"embedded-differs-from-model", fmt.Sprintf("step %d stats: embedded listing %s model %s", i, briefKVs(bFull), briefKVs(mFull))}, false
		}
		if res.stats.KeyCount != int64(len(bFull)) {
			return fail("key-count", "key_count=%d, the embedded listing has %d live keys", res.stats.KeyCount, len(bFull)), nil, false
		}
	case "nodeinfo":
		in := res.info
		if tp := x.c.Topo; tp != nil {
			wantRole := pb.GetNodeInfoResponse_STANDALONE
			switch tp.Role {
			case "primary":
				wantRole = pb.GetNodeInfoResponse_PRIMARY
			case "replica":
				wantRole = pb.GetNodeInfoResponse_REPLICA
			}
			if in.NodeRole != wantRole || in.ReadOnly != tp.ReadOnly || in.PrimaryAddress != tp.Primary || in.LastSequence != tp.LastSeq ||
				in.Version != version.GetVersion() || len(in.Replicas) != len(tp.Replicas) {
				return fail("nodeinfo-differs-from-topology", "the replication manager reports role=%q primary=%q last_sequence=%d read_only=%v replicas=%d (nil list: %v); GetNodeInfo answers role=%v primary=%q last_sequence=%d read_only=%v replicas=%d version=%q",
					tp.Role, tp.Primary, tp.LastSeq, tp.ReadOnly, len(tp.Replicas), tp.NilList, in.NodeRole, in.PrimaryAddress, in.LastSequence, in.ReadOnly, len(in.Replicas), in.Version), nil, false
			}
			for ri, rp := range tp.Replicas {
				g := in.Replicas[ri]
				metaOK := (rp.MetaKey == "" && len(g.Meta) == 0) || (rp.MetaKey != "" && len(g.Meta) == 1 && g.Meta[rp.MetaKey] == "v")
				if g.Address != rp.Address || g.LastSequence != rp.LastSeq || g.Available != rp.Available || g.Region != rp.Region || !metaOK {
					return fail("nodeinfo-replica-differs", "replica %d: reported %+v, GetNodeInfo answers address=%q last_sequence=%d available=%v region=%q meta=%v", ri, rp, g.Address, g.LastSequence, g.Available, g.Region, g.Meta), nil, false
				}
			}
			break
		}
		if in.NodeRole != pb.GetNodeInfoResponse_STANDALONE || in.ReadOnly != x.A.IsReadOnly() || in.PrimaryAddress != "" ||
			len(in.Replicas) != 0 || in.LastSequence != 0 || in.Version != version.GetVersion() {
			return fail("not-standalone", "role=%v read_only=%v primary=%q replicas=%d last_sequence=%d version=%q", in.NodeRole, in.ReadOnly, in.PrimaryAddress, len(in.Replicas), in.LastSequence, in.Version), nil, false
		}
	}

	switch r.Op {
	case "put", "del", "batch", "commit":
		x.quiesce()
	}
	f, inc = x.observe(i, r.Op, x.touched(r))
	return f, inc, false
}

// scanProduct issues the full product of scan options (x five limits around
// the number of matching entries) as Scan or TxScan requests and checks every
// answer against one embedded listing (nothing changes in between).
func (x *exec) scanProduct(i int, r *Req, direct bool, bFull []kv, bErr error, mFull []kv) (*Failure, *inconclusive, bool) {
	c := x.c
	if bErr != nil {
		return nil, &inconclusive{"embedded-scan-error", errStr(bErr)}, false
	}
	if !sameKVs(bFull, mFull) || !ascending(bFull) {
		return nil, &inconclusive{"embedded-differs-from-model", fmt.Sprintf("step %d %s: embedded listing %s model %s", i, r.describe(c), briefKVs(bFull), briefKVs(mFull))}, false
	}
	op, h := "scan", -1
	if r.H >= 0 {
		op, h = "txscan", r.H
	}
	issued := 0
	for _, base := range c.productScans(r) {
		kind := scanKind(&base)
		n := 0
		for _, e := range bFull {
			if matchScan(&base, e.k, kind == "range") {
				n++
			}
		}
		for _, lim := range []int32{0, 1, int32(n), int32(n + 1), -1} {
			s := base
			s.Limit = lim
			q := &Req{Op: op, H: h, Scan: &s}
			res := x.call(q, direct)
			issued++
			if res.err == errBlocked {
				return &Failure{i, "scanproduct:" + op + ":blocked", q.describe(c)}, nil, false
			}
			if res.err != nil {
				return &Failure{i, "scanproduct:" + op + ":fails-but-embedded-ok", q.describe(c) + ": " + errStr(res.err)}, nil, false
			}
			if what, msg := checkScan(res.kvs, bFull, &s); what != "" {
				return &Failure{i, "scanproduct:" + op + ":" + kind + ":" + what, q.describe(c) + ": " + msg}, nil, false
			}
		}
	}
	ev.R().Count("scan_product_requests", issued)
	f, inc := x.observe(i, "scanproduct", []int{})
	return f, inc, false
}

// ---------------------------------------------------------------------------
// whole case

type runStats struct {
	skipped int
	issued  int
}

// runCase executes a case. f != nil: the property is violated.
func runCase(c *Case) (f *Failure, inc *inconclusive, st runStats) {
	if len(c.Keys) == 0 {
		return nil, &inconclusive{"bad-case", "empty key pool"}, st
	}
	x, err := newExec(c)
	if x != nil {
		defer x.close()
	}
	if err != nil {
		return nil, &inconclusive{"setup", err.Error()}, st
	}
	// The registry rolls back handles that were idle for 30 s (and the
	// transaction manager has TTLs from 1 min). A case normally takes well
	// under a second; when the machine is so overloaded that a case runs into
	// the range of those timers, its failures say nothing and are dropped.
	started := time.Now()
	defer func() {
		if f != nil && time.Since(started) > slowCase && !strings.HasSuffix(f.Sig, "blocked") {
			f, inc = nil, &inconclusive{"slow-case", fmt.Sprintf("case took %v (handle idle timeout is 30 s); dropped failure: %v", time.Since(started), f)}
		}
	}()
	for i := range c.Reqs {
		f, inc, skipped := x.do(i)
		if skipped {
			st.skipped++
			continue
		}
		st.issued++
		if f != nil || inc != nil {
			return f, inc, st
		}
	}
	n := len(c.Reqs)
	// final comparison through the service: every pool key ...
	direct := x.md.hasBig()
	for i := range c.Keys {
		r := &Req{Op: "get", K: i}
		res := x.call(r, direct)
		bf, bv, berr := getRes(x.B.Get(c.key(i)))
		if berr != nil {
			return nil, &inconclusive{"embedded-get-error", berr.Error()}, st
		}
		if res.err != nil || res.found != bf || (bf && !bytes.Equal(res.val, bv)) {
			return &Failure{n, "final:get", fmt.Sprintf("key k%d: service found=%v %s err=%v, embedded found=%v %s", i, res.found, brief(res.val), res.err, bf, brief(bv))}, nil, st
		}
	}
	// ... every open handle's full view, then finish the handles through the service ...
	for h, s := range x.slots {
		if !s.open {
			continue
		}
		res := x.call(&Req{Op: "txscan", H: h}, direct)
		full := fullScan(s.txB.NewIterator())
		if res.err != nil {
			return &Failure{n, "final:txscan:fails", fmt.Sprintf("slot %d: %v", h, res.err)}, nil, st
		}
		if what, msg := checkScan(res.kvs, full, &Scan{}); what != "" {
			return &Failure{n, "final:txscan:" + what, fmt.Sprintf("slot %d: %s", h, msg)}, nil, st
		}
	}
	for h, s := range x.slots {
		if !s.open {
			continue
		}
		res := x.call(&Req{Op: "rollback", H: h}, false)
		if err := s.txB.Rollback(); err != nil {
			return nil, &inconclusive{"embedded-rollback-error", err.Error()}, st
		}
		x.md.apply(c, &Req{Op: "rollback", H: h})
		s.open = false
		if res.err != nil || !res.ok {
			return &Failure{n, "final:rollback:fails", fmt.Sprintf("slot %d: err=%v success=%v", h, res.err, res.ok)}, nil, st
		}
	}
	if f, inc := x.observe(n, "final", nil); f != nil || inc != nil {
		return f, inc, st
	}
	// ... and the full listing (the lock is free now).
	res := x.call(&Req{Op: "scan"}, direct)
	full, err := embeddedLive(x.B)
	if err != nil {
		return nil, &inconclusive{"embedded-scan-error", err.Error()}, st
	}
	if res.err != nil {
		return &Failure{n, "final:scan:fails", errStr(res.err)}, nil, st
	}
	if what, msg := checkScan(res.kvs, full, &Scan{}); what != "" {
		return &Failure{n, "final:scan:" + what, msg}, nil, st
	}
	if !sameKVs(full, x.modelKVs(-1)) {
		return nil, &inconclusive{"embedded-differs-from-model", fmt.Sprintf("final listing: embedded %s model %s", briefKVs(full), briefKVs(x.modelKVs(-1)))}, st
	}

	if c.CloseProbe {
		// an engine error that is not "key not found": the embedded Get reports it
		probe := -1
		for i, k := range c.Keys {
			if _, ok := x.md.get(-1, k); ok {
				probe = i
				break
			}
		}
		if probe >= 0 {
			_ = x.A.Close()
			_ = x.B.Close()
			_, _, berr := getRes(x.B.Get(c.key(probe)))
			res := x.call(&Req{Op: "get", K: probe}, false)
			if berr != nil && res.err == nil {
				return &Failure{n + 1, "get:engine-error-reported-as-" + fmt.Sprintf("found=%v", res.found), fmt.Sprintf("engine closed: embedded Get fails with %q, service answers found=%v without error for a key that was stored", errStr(berr), res.found)}, nil, st
			}
		}
	}
	return nil, nil, st
}

// topoProvider is the stand-in for the replication manager.
type topoProvider struct{ t *Topo }

func (p topoProvider) GetNodeInfo() (string, string, []service.ReplicaInfo, uint64, bool) {
	var list []service.ReplicaInfo
	if !p.t.NilList {
		list = []service.ReplicaInfo{}
	}
	for _, r := range p.t.Replicas {
		ri := service.ReplicaInfo{Address: r.Address, LastSequence: r.LastSeq, Available: r.Available, Region: r.Region}
		if r.MetaKey != "" {
			ri.Meta = map[string]string{r.MetaKey: "v"}
		}
		list = append(list, ri)
	}
	return p.t.Role, p.t.Primary, list, p.t.LastSeq, p.t.ReadOnly
}

package c19

import (
	"bytes"
	"fmt"
	"sort"

	"verif/internal/drive"
)

// Documented request limits (service.NewKevoServiceServer).
const (
	maxKey   = 4096
	maxVal   = 10 * 1024 * 1024
	maxBatch = 1000
)

// Special key indices (everything >= 0 is an index into the pool).
const (
	KEmpty = -1 // zero-length key
	KOver  = -2 // 4097-byte key
)

// BOp is one operation of a BatchWrite request.
type BOp struct {
	Del bool       `json:"del,omitempty"`
	K   int        `json:"k"`
	V   *drive.Val `json:"v,omitempty"`
}

// Scan holds the options of a Scan / TxScan request.
type Scan struct {
	Prefix []byte `json:"prefix,omitempty"`
	Suffix []byte `json:"suffix,omitempty"`
	Start  []byte `json:"start,omitempty"`
	End    []byte `json:"end,omitempty"`
	Limit  int32  `json:"limit,omitempty"`
}

// Req is one request of a case.
//
//	op: get put del batch scan begin commit rollback txget txput txdel txscan nodeinfo stats
//	    scanproduct (macro: the full product of scan options derived from Seeds, as Scan
//	    requests when H < 0, as TxScan requests on handle H otherwise)
//
// H addresses a handle slot: slot i is the handle returned by the i-th begin
// request that was issued. H outside [0, #slots) is an unknown handle.
type Req struct {
	Op     string     `json:"op"`
	H      int        `json:"h,omitempty"`
	K      int        `json:"k,omitempty"`
	V      *drive.Val `json:"v,omitempty"`
	RO     bool       `json:"ro,omitempty"`
	Batch  []BOp      `json:"batch,omitempty"`
	Fill   int        `json:"fill,omitempty"` // batch: filler puts appended after Batch (pool keys cyclically)
	Scan   *Scan      `json:"scan,omitempty"`
	Seeds  []int      `json:"seeds,omitempty"`  // scanproduct: pool indices / lengths the option values are derived from
	Direct bool       `json:"direct,omitempty"` // call the server method directly instead of through the transport
}

// Case is a complete generated case.
type Case struct {
	Cfg        drive.Cfg `json:"cfg"`
	Keys       [][]byte  `json:"keys"`
	Reqs       []Req     `json:"reqs"`
	CloseProbe bool      `json:"close_probe,omitempty"` // after the sequence: close the engine, then Get a live key
	// Topo, when set, is what the replication manager handed to the service
	// reports (a stand-in provider); GetNodeInfo must pass it on unchanged
	Topo *Topo `json:"topo,omitempty"`
}

// Topo is a replication topology as a ReplicationInfoProvider reports it.
type Topo struct {
	Role     string        `json:"role"` // primary | replica | standalone | (anything else reads as standalone)
	Primary  string        `json:"primary,omitempty"`
	LastSeq  uint64        `json:"last_seq"`
	ReadOnly bool          `json:"read_only"`
	NilList  bool          `json:"nil_list,omitempty"` // the replica list is nil instead of empty
	Replicas []TopoReplica `json:"replicas,omitempty"`
}

// TopoReplica is one entry of the replica list.
type TopoReplica struct {
	Address   string `json:"address"`
	LastSeq   uint64 `json:"last_seq"`
	Available bool   `json:"available"`
	Region    string `json:"region,omitempty"`
	MetaKey   string `json:"meta_key,omitempty"`
}

var overKey = bytes.Repeat([]byte{'o'}, maxKey+1)

func (c *Case) key(k int) []byte {
	switch {
	case k == KEmpty:
		return nil
	case k == KOver:
		return overKey
	case k < 0:
		return nil
	}
	return c.Keys[k%len(c.Keys)]
}

// batchOps expands Batch + Fill into the full operation list.
func (c *Case) batchOps(r *Req) []BOp {
	if r.Fill <= 0 {
		return r.Batch
	}
	ops := make([]BOp, 0, len(r.Batch)+r.Fill)
	ops = append(ops, r.Batch...)
	for i := 0; i < r.Fill; i++ {
		ops = append(ops, BOp{K: i % len(c.Keys), V: &drive.Val{Len: 1 + i%5, Tag: uint32(900000 + i)}})
	}
	return ops
}

func vlen(v *drive.Val) int {
	if v == nil || v.Nil {
		return 0
	}
	return v.Len
}

// ---------------------------------------------------------------------------
// the model: committed map + one overlay per open handle. Values are kept as
// descriptors (drive.Val); bytes are rendered when compared.

type ovEnt struct {
	del bool
	v   *drive.Val
}

type mslot struct {
	ro   bool
	open bool
	ov   map[string]ovEnt
}

type model struct {
	m     map[string]*drive.Val
	slots []*mslot
}

func newModel() *model { return &model{m: map[string]*drive.Val{}} }

func (md *model) writer() int {
	for i, s := range md.slots {
		if s.open && !s.ro {
			return i
		}
	}
	return -1
}

func (md *model) readers() int {
	n := 0
	for _, s := range md.slots {
		if s.open && s.ro {
			n++
		}
	}
	return n
}

func (md *model) openSlots() []int {
	var o []int
	for i, s := range md.slots {
		if s.open {
			o = append(o, i)
		}
	}
	return o
}

func (md *model) finishedSlots() []int {
	var o []int
	for i, s := range md.slots {
		if !s.open {
			o = append(o, i)
		}
	}
	return o
}

// lock is the state the process-wide transaction lock must be in.
func (md *model) lock() string {
	if md.writer() >= 0 {
		return "writer"
	}
	if md.readers() > 0 {
		return "readers"
	}
	return "free"
}

func (md *model) slot(h int) *mslot {
	if h < 0 || h >= len(md.slots) {
		return nil
	}
	return md.slots[h]
}

// hasBig reports whether any committed or buffered value is too large for the
// transport's default message cap (with margin).
func (md *model) hasBig() bool {
	for _, v := range md.m {
		if vlen(v) > 1<<20 {
			return true
		}
	}
	for _, s := range md.slots {
		if s.open {
			for _, e := range s.ov {
				if vlen(e.v) > 1<<20 {
					return true
				}
			}
		}
	}
	return false
}

// mkv is one live entry of the model in key order.
type mkv struct {
	k string
	v *drive.Val
}

// live returns the live entries as seen by handle h (h < 0: committed state).
func (md *model) live(h int) []mkv {
	var ov map[string]ovEnt
	if s := md.slot(h); s != nil {
		ov = s.ov
	}
	var out []mkv
	for k, v := range md.m {
		if _, shadow := ov[k]; shadow {
			continue
		}
		out = append(out, mkv{k, v})
	}
	for k, e := range ov {
		if !e.del {
			out = append(out, mkv{k, e.v})
		}
	}
	sort.Slice(out, func(i, j int) bool { return out[i].k < out[j].k })
	return out
}

func (md *model) get(h int, k []byte) (*drive.Val, bool) {
	if s := md.slot(h); s != nil {
		if e, ok := s.ov[string(k)]; ok {
			if e.del {
				return nil, false
			}
			return e.v, true
		}
	}
	v, ok := md.m[string(k)]
	return v, ok
}

func validKey(k []byte) bool { return len(k) >= 1 && len(k) <= maxKey }

// scanKind classifies the option combination.
func scanKind(s *Scan) string {
	f := len(s.Prefix) > 0 || len(s.Suffix) > 0
	r := len(s.Start) > 0 || len(s.End) > 0
	switch {
	case f && r:
		return "mixed"
	case f:
		return "filters"
	case r:
		return "range"
	}
	return "neither"
}

// matchScan decides membership under the documented meaning of the options
// that are unambiguous: prefix and suffix filters, range [start, end).
// useRange=false ignores the range.
func matchScan(s *Scan, k []byte, useRange bool) bool {
	if len(s.Prefix) > 0 && !bytes.HasPrefix(k, s.Prefix) {
		return false
	}
	if len(s.Suffix) > 0 && !bytes.HasSuffix(k, s.Suffix) {
		return false
	}
	if useRange {
		if len(s.Start) > 0 && bytes.Compare(k, s.Start) < 0 {
			return false
		}
		if len(s.End) > 0 && bytes.Compare(k, s.End) >= 0 {
			return false
		}
	}
	return true
}

// verdict says how the service has to treat request r in state md:
//
//	"ok"            corresponding embedded operation decides the answer
//	"reject:<why>"  must fail without side effects
//	"blocks"        would wait for the transaction lock by design; never issued
func verdict(c *Case, r *Req, md *model) string {
	w, nr := md.writer(), md.readers()
	handle := func() string {
		s := md.slot(r.H)
		if s == nil {
			return "reject:unknown-handle"
		}
		if !s.open {
			return "reject:finished-handle"
		}
		return ""
	}
	switch r.Op {
	case "get", "del":
		if !validKey(c.key(r.K)) {
			return "reject:key"
		}
	case "put":
		if !validKey(c.key(r.K)) {
			return "reject:key"
		}
		if vlen(r.V) > maxVal {
			return "reject:value"
		}
	case "batch":
		ops := c.batchOps(r)
		if len(ops) == 0 {
			return "ok"
		}
		if len(ops) > maxBatch {
			return "reject:batch"
		}
		if w >= 0 || nr > 0 {
			return "blocks"
		}
		for _, o := range ops {
			if !validKey(c.key(o.K)) {
				return "reject:batch-key"
			}
			if !o.Del && vlen(o.V) > maxVal {
				return "reject:batch-value"
			}
		}
	case "scan", "stats":
		if w >= 0 {
			return "blocks"
		}
	case "scanproduct":
		if r.H < 0 {
			if w >= 0 {
				return "blocks"
			}
		} else if v := handle(); v != "" {
			return v
		}
	case "begin":
		if w >= 0 || (!r.RO && nr > 0) {
			return "blocks"
		}
	case "commit", "rollback", "txscan":
		if v := handle(); v != "" {
			return v
		}
	case "txget":
		if v := handle(); v != "" {
			return v
		}
		if !validKey(c.key(r.K)) {
			return "reject:key"
		}
	case "txput", "txdel":
		if v := handle(); v != "" {
			return v
		}
		if md.slot(r.H).ro {
			return "reject:readonly"
		}
		if !validKey(c.key(r.K)) {
			return "reject:key"
		}
		if r.Op == "txput" && vlen(r.V) > maxVal {
			return "reject:value"
		}
	case "nodeinfo":
	default:
		return "reject:unknown-op"
	}
	return "ok"
}

// apply performs an accepted ("ok") request on the model.
func (md *model) apply(c *Case, r *Req) {
	switch r.Op {
	case "put":
		md.m[string(c.key(r.K))] = r.V
	case "del":
		delete(md.m, string(c.key(r.K)))
	case "batch":
		for _, o := range c.batchOps(r) {
			if o.Del {
				delete(md.m, string(c.key(o.K)))
			} else {
				md.m[string(c.key(o.K))] = o.V
			}
		}
	case "begin":
		md.slots = append(md.slots, &mslot{ro: r.RO, open: true, ov: map[string]ovEnt{}})
	case "commit":
		s := md.slot(r.H)
		for k, e := range s.ov {
			if e.del {
				delete(md.m, k)
			} else {
				md.m[k] = e.v
			}
		}
		s.open, s.ov = false, nil
	case "rollback":
		s := md.slot(r.H)
		s.open, s.ov = false, nil
	case "txput":
		md.slot(r.H).ov[string(c.key(r.K))] = ovEnt{v: r.V}
	case "txdel":
		md.slot(r.H).ov[string(c.key(r.K))] = ovEnt{del: true}
	}
}

// scanCount returns the number of entries an unlimited scan with these options
// returns under the documented meaning (range ignored for mixed requests; used
// only to pick interesting limits).
func (md *model) scanCount(h int, s *Scan) int {
	kind := scanKind(s)
	n := 0
	for _, e := range md.live(h) {
		if matchScan(s, []byte(e.k), kind == "range") {
			n++
		}
	}
	return n
}

// productScans expands a scanproduct request: every combination of
// prefix x suffix x start x end (limits are added by the executor, which knows
// the number of matching entries).
func (c *Case) productScans(r *Req) []Scan {
	seed := func(i int) int {
		if i < len(r.Seeds) && r.Seeds[i] >= 0 {
			return r.Seeds[i]
		}
		return 0
	}
	pk, sk, ak, bk := c.key(seed(0)), c.key(seed(2)), c.key(seed(4)), c.key(seed(5))
	pl := 1 + seed(1)%len(pk)
	sl := 1 + seed(3)%len(sk)
	cp := func(b []byte) []byte { return append([]byte{}, b...) }
	prefixes := [][]byte{nil, cp(pk[:pl]), append(cp(pk), 0x07)}
	suffixes := [][]byte{nil, cp(sk[len(sk)-sl:])}
	starts := [][]byte{nil, cp(ak), append(cp(ak), 0x00)}
	ends := [][]byte{nil, cp(bk), append(cp(bk), 0x00), {0x00}}
	var out []Scan
	for _, p := range prefixes {
		for _, s := range suffixes {
			for _, a := range starts {
				for _, b := range ends {
					out = append(out, Scan{Prefix: p, Suffix: s, Start: a, End: b})
				}
			}
		}
	}
	return out
}

func (r *Req) describe(c *Case) string {
	switch r.Op {
	case "scanproduct":
		return fmt.Sprintf("scanproduct h=%d seeds=%v", r.H, r.Seeds)
	case "get", "del":
		return fmt.Sprintf("%s k=%d(len %d)", r.Op, r.K, len(c.key(r.K)))
	case "put":
		return fmt.Sprintf("put k=%d(len %d) vlen=%d", r.K, len(c.key(r.K)), vlen(r.V))
	case "batch":
		return fmt.Sprintf("batch n=%d", len(c.batchOps(r)))
	case "begin":
		return fmt.Sprintf("begin ro=%v", r.RO)
	case "commit", "rollback":
		return fmt.Sprintf("%s h=%d", r.Op, r.H)
	case "txget", "txdel":
		return fmt.Sprintf("%s h=%d k=%d(len %d)", r.Op, r.H, r.K, len(c.key(r.K)))
	case "txput":
		return fmt.Sprintf("txput h=%d k=%d(len %d) vlen=%d", r.H, r.K, len(c.key(r.K)), vlen(r.V))
	case "scan", "txscan":
		s := r.Scan
		if s == nil {
			s = &Scan{}
		}
		return fmt.Sprintf("%s h=%d prefix=%q suffix=%q start=%q end=%q limit=%d", r.Op, r.H, clip(s.Prefix), clip(s.Suffix), clip(s.Start), clip(s.End), s.Limit)
	}
	return r.Op
}

func clip(b []byte) []byte {
	if len(b) > 16 {
		return append(append([]byte{}, b[:8]...), []byte(fmt.Sprintf("..(%d)", len(b)))...)
	}
	return b
}

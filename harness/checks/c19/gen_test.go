package c19

import (
	"bytes"
	"fmt"
	"sort"

	"pgregory.net/rapid"

	"verif/internal/drive"
	"verif/internal/ev"
	"verif/internal/gen"
)

// Generator feature flags (default on; switched off through VERIF_OFF while a
// known finding is open):
//
//	reject_on_open_handle  TxGet with an out-of-limit key on an OPEN handle
//	engine_error_mapping   closing the engine at the end and reading a stored key
const (
	flagRejectOpen = "reject_on_open_handle"
	flagErrMapping = "engine_error_mapping"
)

type weighted struct {
	op string
	w  int
}

func pick(t *rapid.T, ch []weighted) string {
	total := 0
	for _, c := range ch {
		total += c.w
	}
	n := rapid.IntRange(0, total-1).Draw(t, "op")
	for _, c := range ch {
		if n < c.w {
			return c.op
		}
		n -= c.w
	}
	return ch[len(ch)-1].op
}

func genPool(t *rapid.T) [][]byte {
	keys := gen.Keys(t, 3, 10)
	seen := map[string]bool{}
	for _, k := range keys {
		seen[string(k)] = true
	}
	add := func(k []byte) {
		if !seen[string(k)] {
			seen[string(k)] = true
			keys = append(keys, k)
		}
	}
	if rapid.Bool().Draw(t, "key1") {
		add([]byte{byte(rapid.SampledFrom([]int{'a', 'b', 'm', 0x00, 0xff}).Draw(t, "key1b"))})
	}
	if rapid.IntRange(0, 2).Draw(t, "key4096") == 0 {
		add(append(bytes.Repeat([]byte{'b'}, maxKey-1), 'a'))
	}
	sort.Slice(keys, func(i, j int) bool { return bytes.Compare(keys[i], keys[j]) < 0 })
	return keys
}

func genValue(t *rapid.T, tag *uint32, allowMax bool) *drive.Val {
	*tag++
	classes := []string{"small", "small", "small", "small", "small", "small", "small", "empty", "empty", "medium", "medium", "frag"}
	if allowMax {
		classes = append(classes, "max")
	}
	switch rapid.SampledFrom(classes).Draw(t, "vclass") {
	case "empty":
		if !ev.Flag("empty_values") {
			ev.R().Exclude("empty_values")
			return &drive.Val{Len: 1, Tag: *tag}
		}
		if rapid.Bool().Draw(t, "vnil") {
			return &drive.Val{Tag: *tag, Nil: true}
		}
		return &drive.Val{Tag: *tag}
	case "medium":
		return &drive.Val{Len: rapid.IntRange(200, 3000).Draw(t, "vlen"), Tag: *tag}
	case "frag":
		// larger than one 32 KiB log record
		return &drive.Val{Len: rapid.IntRange(32*1024, 40*1024).Draw(t, "vlen"), Tag: *tag}
	case "max":
		return &drive.Val{Len: maxVal, Tag: *tag}
	}
	return &drive.Val{Len: rapid.IntRange(1, 24).Draw(t, "vlen"), Tag: *tag}
}

func sub(t *rapid.T, keys [][]byte, label string) []byte {
	return keys[rapid.IntRange(0, len(keys)-1).Draw(t, label)]
}

// genScan draws the options as a product of independent choices inside a
// drawn shape (so that the exactly-decided shapes are frequent), then a limit
// around the number of entries the request returns.
func genScan(t *rapid.T, c *Case, md *model, h int) *Scan {
	s := &Scan{}
	shape := rapid.SampledFrom([]string{"neither", "filters", "filters", "range", "range", "mixed", "mixed"}).Draw(t, "scanshape")
	drawPrefix := func() {
		k := sub(t, c.Keys, "pk")
		switch rapid.SampledFrom([]string{"part", "part", "whole", "miss"}).Draw(t, "prefix") {
		case "part":
			n := rapid.IntRange(1, min(len(k), 3)).Draw(t, "plen")
			s.Prefix = append([]byte{}, k[:n]...)
		case "whole":
			s.Prefix = append([]byte{}, k...)
		default:
			s.Prefix = append(append([]byte{}, k...), 0x07, 0x07)
		}
	}
	drawSuffix := func() {
		k := sub(t, c.Keys, "sk")
		switch rapid.SampledFrom([]string{"part", "part", "whole", "miss"}).Draw(t, "suffix") {
		case "part":
			n := rapid.IntRange(1, min(len(k), 3)).Draw(t, "slen")
			s.Suffix = append([]byte{}, k[len(k)-n:]...)
		case "whole":
			s.Suffix = append([]byte{}, k...)
		default:
			s.Suffix = append([]byte{0x07, 0x07}, k...)
		}
	}
	bound := func(label string) []byte {
		k := sub(t, c.Keys, label+"k")
		switch rapid.SampledFrom([]string{"key", "key", "after", "low", "high"}).Draw(t, label) {
		case "key":
			return append([]byte{}, k...)
		case "after":
			return append(append([]byte{}, k...), 0x00) // between k and its successor
		case "low":
			return []byte{0x00}
		}
		return []byte{0xff, 0xff, 0xff}
	}
	drawFilters := func() {
		switch rapid.SampledFrom([]string{"prefix", "prefix", "suffix", "both"}).Draw(t, "filters") {
		case "prefix":
			drawPrefix()
		case "suffix":
			drawSuffix()
		default:
			drawPrefix()
			drawSuffix()
		}
	}
	drawRange := func() {
		switch rapid.SampledFrom([]string{"start", "end", "both", "both"}).Draw(t, "range") {
		case "start":
			s.Start = bound("start")
		case "end":
			s.End = bound("end")
		default:
			s.Start = bound("start")
			s.End = bound("end") // may be <= start: empty range
		}
	}
	switch shape {
	case "filters":
		drawFilters()
	case "range":
		drawRange()
	case "mixed":
		drawFilters()
		drawRange()
	}
	n := md.scanCount(h, s)
	switch rapid.SampledFrom([]string{"0", "0", "1", "n", "n+1", "n-1", "neg", "minint"}).Draw(t, "limit") {
	case "1":
		s.Limit = 1
	case "n":
		s.Limit = int32(n)
	case "n+1":
		s.Limit = int32(n + 1)
	case "n-1":
		s.Limit = int32(n - 1) // n=0 gives -1, n=1 gives 0
	case "neg":
		s.Limit = -int32(rapid.IntRange(1, 5).Draw(t, "neglimit"))
	case "minint":
		s.Limit = -1 << 31
	}
	return s
}

func genCase(t *rapid.T) Case {
	c := Case{Cfg: gen.Config(t), Keys: genPool(t)}
	// keep data moving through the layers: small memtables most of the time
	c.Cfg.MemTableSize = rapid.SampledFrom([]int64{256, 1024, 1024, 4096, 4096, 64 * 1024, 32 << 20}).Draw(t, "memtable2")
	md := newModel()
	n := rapid.IntRange(10, 40).Draw(t, "nreqs")
	tag := uint32(0)
	nk := len(c.Keys)
	// one 10 MiB value at most, in few cases (every later read of it moves 10 MiB on both engines)
	usedMax := rapid.IntRange(0, 24).Draw(t, "maxcase") != 0
	goodKey := func() int { return rapid.IntRange(0, nk-1).Draw(t, "k") }
	badKey := func() int { return rapid.SampledFrom([]int{KEmpty, KOver}).Draw(t, "badk") }
	overVal := func() *drive.Val { tag++; return &drive.Val{Len: maxVal + 1, Tag: tag} }
	unknownH := func() int {
		return rapid.SampledFrom([]int{-1, -2, -3, len(md.slots), len(md.slots) + 7}).Draw(t, "unkh")
	}
	// per-case bias so that both many-readers and writer-centred sequences are frequent
	didProduct := false // at most one full scan-option product per case (360 requests)
	bias := rapid.SampledFrom([]string{"mixed", "readers", "writer"}).Draw(t, "bias")
	for i := 0; i < n; i++ {
		w, nr := md.writer(), md.readers()
		open := md.openSlots()
		fin := md.finishedSlots()
		free := w < 0 && nr == 0
		var ch []weighted
		add := func(op string, wt int) { ch = append(ch, weighted{op, wt}) }
		add("skip", 1)     // first choice = smallest draw: shrinking removes requests this way
		if len(open) > 0 { // leave room for requests on the handles
			add("get", 2)
			add("put", 3)
			add("del", 1)
		} else {
			add("get", 3)
			add("put", 5)
			add("del", 2)
		}
		add("nodeinfo", 1)
		add("badsize", 3)
		add("badhandle", 2)
		if len(fin) > 0 {
			add("badhandle", 2)
		}
		add("batchedge", 1)              // 0 or 1001 operations: never takes the lock
		if !didProduct && !md.hasBig() { // 360 answers: not while a 10 MiB value is listed
			if w < 0 {
				add("scanproduct", 1)
			}
			if len(open) > 0 {
				add("txscanproduct", 1)
			}
		}
		if w < 0 {
			add("scan", 4)
			add("stats", 1)
			if nr < 3 {
				switch {
				case bias == "readers":
					add("begin_ro", 12)
				case bias == "writer":
					add("begin_ro", 1)
				default:
					add("begin_ro", 6)
				}
			}
		}
		if free {
			switch bias {
			case "readers":
				add("begin_rw", 1)
			case "writer":
				add("begin_rw", 12)
			default:
				add("begin_rw", 6)
			}
			add("batch", 3)
		}
		if len(open) > 0 {
			add("txget", 4)
			add("txscan", 4)
			if w >= 0 {
				add("txput", 7)
				add("txdel", 3)
				add("commit", 3)
				add("rollback", 1)
			} else {
				add("txwrite_ro", 1)
				if nr >= 2 {
					add("txget", 6) // alternate between the open handles
					add("txscan", 2)
					add("commit", 1)
				} else {
					add("commit", 2)
				}
				add("rollback", 1)
			}
		}
		var r Req
		anyOpen := func() int { return open[rapid.IntRange(0, len(open)-1).Draw(t, "h")] }
		op := pick(t, ch)
		if op == "skip" {
			continue
		}
		switch op {
		case "get", "del":
			r = Req{Op: op, K: goodKey()}
		case "put":
			v := genValue(t, &tag, !usedMax)
			if vlen(v) == maxVal {
				usedMax = true
			}
			r = Req{Op: "put", K: goodKey(), V: v}
		case "nodeinfo", "stats":
			r = Req{Op: op}
		case "scanproduct", "txscanproduct":
			didProduct = true
			h := -1
			if op == "txscanproduct" {
				h = anyOpen()
			}
			r = Req{Op: "scanproduct", H: h, Seeds: []int{goodKey(), rapid.IntRange(0, 2).Draw(t, "plen"), goodKey(), rapid.IntRange(0, 2).Draw(t, "slen"), goodKey(), goodKey()}}
		case "scan":
			r = Req{Op: "scan", H: -1, Scan: genScan(t, &c, md, -1)}
		case "begin_ro":
			r = Req{Op: "begin", RO: true}
		case "begin_rw":
			r = Req{Op: "begin"}
		case "batch":
			m := rapid.IntRange(1, 6).Draw(t, "nbatch")
			for j := 0; j < m; j++ {
				if rapid.IntRange(0, 3).Draw(t, "bdel") == 0 {
					r.Batch = append(r.Batch, BOp{Del: true, K: goodKey()})
				} else {
					r.Batch = append(r.Batch, BOp{K: goodKey(), V: genValue(t, &tag, false)})
				}
			}
			r.Op = "batch"
			if rapid.IntRange(0, 5).Draw(t, "bfull") == 0 {
				r.Fill = maxBatch - len(r.Batch) // exactly 1000 operations
			}
		case "batchedge":
			r = Req{Op: "batch"}
			if rapid.Bool().Draw(t, "bover") {
				r.Batch = []BOp{{K: goodKey(), V: genValue(t, &tag, false)}}
				r.Fill = maxBatch
			}
		case "txget":
			r = Req{Op: "txget", H: anyOpen(), K: goodKey()}
		case "txscan":
			h := anyOpen()
			r = Req{Op: "txscan", H: h, Scan: genScan(t, &c, md, h)}
		case "commit", "rollback":
			r = Req{Op: op, H: anyOpen()}
		case "txput":
			r = Req{Op: "txput", H: w, K: goodKey(), V: genValue(t, &tag, false)}
		case "txdel":
			r = Req{Op: "txdel", H: w, K: goodKey()}
		case "txwrite_ro":
			h := anyOpen()
			if rapid.Bool().Draw(t, "rodel") {
				r = Req{Op: "txdel", H: h, K: goodKey()}
			} else {
				r = Req{Op: "txput", H: h, K: goodKey(), V: genValue(t, &tag, false)}
			}
		case "badhandle":
			h := unknownH()
			if len(fin) > 0 && rapid.IntRange(0, 2).Draw(t, "finished") != 0 {
				h = fin[rapid.IntRange(0, len(fin)-1).Draw(t, "fh")]
			}
			switch rapid.SampledFrom([]string{"txget", "txput", "txdel", "txscan", "commit", "rollback"}).Draw(t, "bhop") {
			case "txget":
				r = Req{Op: "txget", H: h, K: goodKey()}
			case "txput":
				r = Req{Op: "txput", H: h, K: goodKey(), V: genValue(t, &tag, false)}
			case "txdel":
				r = Req{Op: "txdel", H: h, K: goodKey()}
			case "txscan":
				r = Req{Op: "txscan", H: h, Scan: &Scan{}}
			case "commit":
				r = Req{Op: "commit", H: h}
			default:
				r = Req{Op: "rollback", H: h}
			}
		case "badsize":
			kinds := []string{"get", "put-key", "put-value", "del"}
			if free {
				kinds = append(kinds, "batch-key", "batch-value")
			}
			if len(open) > 0 {
				kinds = append(kinds, "txget", "txget")
				if w >= 0 {
					kinds = append(kinds, "txput-key", "txput-value", "txdel", "txput-key", "txput-value")
				}
			}
			switch rapid.SampledFrom(kinds).Draw(t, "badkind") {
			case "get":
				r = Req{Op: "get", K: badKey()}
			case "del":
				r = Req{Op: "del", K: badKey()}
			case "put-key":
				r = Req{Op: "put", K: badKey(), V: genValue(t, &tag, false)}
			case "put-value":
				r = Req{Op: "put", K: goodKey(), V: overVal(), Direct: true}
			case "batch-key", "batch-value":
				m := rapid.IntRange(0, 3).Draw(t, "nbefore")
				for j := 0; j < m; j++ {
					r.Batch = append(r.Batch, BOp{K: goodKey(), V: genValue(t, &tag, false)})
				}
				if len(r.Batch) > 0 && rapid.IntRange(0, 3).Draw(t, "bdel") == 0 {
					r.Batch[0] = BOp{Del: true, K: r.Batch[0].K}
				}
				r.Op = "batch"
				if rapid.IntRange(0, 1).Draw(t, "bk") == 0 {
					r.Batch = append(r.Batch, BOp{K: badKey(), V: genValue(t, &tag, false)})
				} else {
					r.Batch = append(r.Batch, BOp{K: goodKey(), V: overVal()})
					r.Direct = true
				}
				if rapid.Bool().Draw(t, "bafter") {
					r.Batch = append(r.Batch, BOp{K: goodKey(), V: genValue(t, &tag, false)})
				}
			case "txget":
				h := anyOpen()
				if !ev.Flag(flagRejectOpen) {
					ev.R().Exclude(flagRejectOpen)
					r = Req{Op: "txget", H: h, K: goodKey()}
				} else {
					r = Req{Op: "txget", H: h, K: badKey()}
				}
			case "txput-key":
				r = Req{Op: "txput", H: w, K: badKey(), V: genValue(t, &tag, false)}
			case "txput-value":
				r = Req{Op: "txput", H: w, K: goodKey(), V: overVal(), Direct: true}
			case "txdel":
				r = Req{Op: "txdel", H: w, K: badKey()}
			}
		}
		if !r.Direct && rapid.IntRange(0, 7).Draw(t, "direct") == 0 {
			r.Direct = true
		}
		v := verdict(&c, &r, md)
		if v == "blocks" { // cannot happen: the choices above are lock-aware
			panic("generator drew a request that waits for the lock: " + r.describe(&c))
		}
		if v == "ok" {
			md.apply(&c, &r)
		}
		c.Reqs = append(c.Reqs, r)
	}
	if rapid.IntRange(0, 2).Draw(t, "topo") == 0 {
		tp := &Topo{
			Role:     rapid.SampledFrom([]string{"primary", "primary", "replica", "standalone", ""}).Draw(t, "role"),
			LastSeq:  rapid.SampledFrom([]uint64{0, 1, 7, 42, 1 << 40}).Draw(t, "lastseq"),
			ReadOnly: rapid.Bool().Draw(t, "readonly"),
			NilList:  rapid.Bool().Draw(t, "nillist"),
		}
		if tp.Role == "replica" || rapid.IntRange(0, 3).Draw(t, "hasprimaryaddr") == 0 {
			tp.Primary = rapid.SampledFrom([]string{"10.0.0.1:50052", "primary.example:1", "[::1]:9"}).Draw(t, "primaryaddr")
		}
		for i, n := 0, rapid.SampledFrom([]int{0, 0, 0, 1, 2, 5}).Draw(t, "nreplicas"); i < n; i++ {
			tp.Replicas = append(tp.Replicas, TopoReplica{
				Address:   fmt.Sprintf("10.0.1.%d:50053", i+1),
				LastSeq:   rapid.SampledFrom([]uint64{0, 3, 41, 42}).Draw(t, "rseq"),
				Available: rapid.Bool().Draw(t, "ravail"),
				Region:    rapid.SampledFrom([]string{"", "eu-1"}).Draw(t, "rregion"),
				MetaKey:   rapid.SampledFrom([]string{"", "rack"}).Draw(t, "rmeta"),
			})
		}
		c.Topo = tp
		// make sure the sequence asks
		c.Reqs = append(c.Reqs, Req{Op: "nodeinfo", Direct: rapid.Bool().Draw(t, "topodirect")})
	}
	if rapid.IntRange(0, 7).Draw(t, "closeprobe") == 0 {
		if ev.Flag(flagErrMapping) {
			c.CloseProbe = true
		} else {
			ev.R().Exclude(flagErrMapping)
		}
	}
	return c
}

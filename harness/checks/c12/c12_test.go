// C12 — compaction preserves content; deleted keys stay deleted
// (DESIGN.md 5/C12). Metamorphic: live view before = live view after, at
// component level (generated SSTable directories), engine level (workloads
// with compactions, retired logs and reopen) and crash level (child killed
// inside compaction).
package c12

import (
	"bytes"
	"encoding/json"
	"fmt"
	"os"
	"path/filepath"
	"sort"
	"strings"
	"testing"

	"pgregory.net/rapid"

	"github.com/KevoDB/kevo/pkg/compaction"
	"github.com/KevoDB/kevo/pkg/config"
	"github.com/KevoDB/kevo/pkg/engine"
	"github.com/KevoDB/kevo/pkg/sstable"

	"verif/internal/drive"
	"verif/internal/ev"
	"verif/internal/gen"
)

const rule = "three sub-checks. component: a generated directory of SSTables (1-6 overlapping level-0 files with controlled recency, " +
	"0-2 deeper levels with non-overlapping files, overwrites and tombstones placed across files) is compacted by the real coordinator " +
	"(TriggerCompaction repeated, or CompactRange with drawn bounds, fresh tombstone tracker = state after a restart, or a tracker that " +
	"knows a drawn subset); oracle: newest-wins live view known from generation = view read by an engine opened on the directory before = " +
	"after compaction; every output file strictly ascending. engine: C01-style workloads with TriggerCompaction/CompactRange/flush/retire " +
	"(drop flushed logs)/reopen, every read after every step and a full scan after reopen equal the map model. crash: the same in a child " +
	"killed at compaction.* hook sites, state after reopen must be the exact pre-compaction state. non-trivial: compaction inputs contain " +
	"the same key in >= 2 files with different values/markers (component) / a compaction after a retire followed by reopen (engine, crash); " +
	"distinct by case hash"

func TestMain(m *testing.M) {
	if os.Getenv("VERIF_CHILD_SPEC") != "" {
		ev.Silence()
		os.Exit(m.Run())
	}
	ev.Silence()
	rec := ev.Init("C12", rule)
	code := m.Run()
	rec.Flush(true)
	os.Exit(code)
}

func TestChild(t *testing.T) {
	sp := os.Getenv("VERIF_CHILD_SPEC")
	if sp == "" {
		t.Skip("not a child")
	}
	if err := drive.ChildMain(sp); err != nil {
		fmt.Fprintln(os.Stderr, "CHILD-ERROR:", err)
		os.Exit(3)
	}
}

// ------------------------------------------------------------ component ----

// Ent is one entry of a generated file: key index, tombstone or value tag.
type Ent struct {
	K    int    `json:"k"`
	Tomb bool   `json:"tomb,omitempty"`
	Tag  uint32 `json:"tag,omitempty"`
	Len  int    `json:"len,omitempty"`
}

// File is one generated SSTable. Epoch orders files by recency (higher = newer).
type File struct {
	Level int   `json:"level"`
	Epoch int   `json:"epoch"`
	Ents  []Ent `json:"ents"` // ascending key index
}

// CompCase is a component-level case.
type CompCase struct {
	Keys      [][]byte `json:"keys"` // sorted ascending
	Files     []File   `json:"files"`
	MaxMem    int      `json:"max_memtables"`        // cfg.MaxMemTables: L0 trigger and batch size
	MaxTombLv int      `json:"max_level_tombstones"` // cfg.MaxLevelWithTombstones
	Action    string   `json:"action"`               // trigger | range
	A         int      `json:"a"`                    // CompactRange bounds (key indexes)
	B         int      `json:"b"`
	Rounds    int      `json:"rounds"`            // how often TriggerCompaction is called
	Tracked   []int    `json:"tracked,omitempty"` // key indexes whose deletion the tombstone tracker knows
	// FaultLimit > 0: the compaction calls run under a process file-size limit of
	// this many bytes (an output file cannot grow beyond it: the compaction
	// fails the way it fails on a full disk). Whatever the calls return, the
	// content must be preserved.
	FaultLimit int64 `json:"fault_limit,omitempty"`
	// Ratio > 0: cfg.CompactionRatio (size-ratio trigger between adjacent levels)
	Ratio float64 `json:"ratio,omitempty"`
}

func valOf(e Ent) []byte {
	if e.Tomb {
		return nil
	}
	v := drive.Val{Len: e.Len, Tag: e.Tag}.Bytes()
	if v == nil {
		v = []byte{}
	}
	return v
}

func writeFiles(dir string, c *CompCase) error {
	// sequence numbers per level follow the epoch order; timestamps too
	for _, f := range c.Files {
		name := fmt.Sprintf("%d_%06d_%020d.sst", f.Level, f.Epoch+1, 1000+f.Epoch)
		w, err := sstable.NewWriter(filepath.Join(dir, name))
		if err != nil {
			return err
		}
		for _, e := range f.Ents {
			if err := w.AddWithSequence(c.Keys[e.K], valOf(e), uint64(f.Epoch+1)); err != nil {
				return err
			}
		}
		if err := w.Finish(); err != nil {
			return err
		}
	}
	return nil
}

// trueView is the newest-wins live view known from generation.
func trueView(c *CompCase) drive.Model {
	files := append([]File{}, c.Files...)
	sort.SliceStable(files, func(i, j int) bool { return files[i].Epoch < files[j].Epoch })
	m := drive.Model{}
	for _, f := range files {
		for _, e := range f.Ents {
			if e.Tomb {
				delete(m, string(c.Keys[e.K]))
			} else {
				m[string(c.Keys[e.K])] = valOf(e)
			}
		}
	}
	return m
}

// engineView opens an engine on the directory layout and reads everything.
func engineView(dbdir string, keys [][]byte) (*drive.Snapshot, error) {
	e, err := engine.NewEngineFacade(dbdir)
	if err != nil {
		return nil, err
	}
	defer e.Close()
	return drive.Observe(e, &drive.Program{Keys: keys}), nil
}

// checkOutputs: every table in the directory is strictly ascending.
func checkOutputs(sstDir string) string {
	names, _ := filepath.Glob(filepath.Join(sstDir, "*.sst"))
	for _, n := range names {
		r, err := sstable.OpenReader(n)
		if err != nil {
			return fmt.Sprintf("cannot open %s: %v", filepath.Base(n), err)
		}
		it := r.NewIterator()
		var prev []byte
		for it.SeekToFirst(); it.Valid(); it.Next() {
			k := it.Key()
			if prev != nil && bytes.Compare(k, prev) <= 0 {
				r.Close()
				return fmt.Sprintf("%s: key %q after %q (not strictly ascending / duplicate)", filepath.Base(n), k, prev)
			}
			prev = append(prev[:0], k...)
		}
		r.Close()
	}
	return ""
}

type failure struct{ sig, msg string }

func runComp(c *CompCase) (*failure, []string, bool) {
	root, err := os.MkdirTemp("", "c12c-")
	if err != nil {
		panic(err)
	}
	defer os.RemoveAll(root)
	db := root + "/db"
	cfg := config.NewDefaultConfig(db)
	cfg.MaxMemTables = c.MaxMem
	cfg.MaxLevelWithTombstones = c.MaxTombLv
	cfg.CompactionInterval = 3600
	if c.Ratio > 0 {
		cfg.CompactionRatio = c.Ratio
	}
	if err := cfg.SaveManifest(db); err != nil {
		panic(err)
	}
	if err := os.MkdirAll(cfg.SSTDir, 0o755); err != nil {
		panic(err)
	}
	if err := writeFiles(cfg.SSTDir, c); err != nil {
		return &failure{"comp:setup-error", err.Error()}, nil, false
	}
	want := trueView(c)
	prog := &drive.Program{Keys: c.Keys}
	// view through the engine before compaction
	v0, err := engineView(db, c.Keys)
	if err != nil {
		return &failure{"comp:open-error-before", err.Error()}, nil, false
	}
	if d := v0.EqualModel(want, prog); d != "" {
		return &failure{"comp:view-before-differs-from-generation", "engine opened on the generated files (before any compaction): " + d}, nil, false
	}
	// compaction through the real coordinator
	tracker := compaction.NewTombstoneTracker(24 * 3600 * 1e9)
	for _, k := range c.Tracked {
		tracker.AddTombstone(c.Keys[k])
	}
	coord := compaction.NewCompactionCoordinator(cfg, cfg.SSTDir, compaction.CompactionCoordinatorOptions{
		TombstoneManager: tracker, CompactionInterval: 3600})
	if err := coord.Start(); err != nil {
		return &failure{"comp:start-error", err.Error()}, nil, false
	}
	before, _ := filepath.Glob(filepath.Join(cfg.SSTDir, "*.sst"))
	var cerr error
	if c.FaultLimit > 0 {
		if err := drive.SetFsizeLimit(uint64(c.FaultLimit)); err != nil {
			panic(err)
		}
	}
	switch c.Action {
	case "range":
		var a, b []byte
		if c.A >= 0 {
			a = c.Keys[c.A]
		}
		if c.B >= 0 {
			b = c.Keys[c.B]
		}
		cerr = coord.CompactRange(a, b)
	default:
		for i := 0; i < c.Rounds && cerr == nil; i++ {
			cerr = coord.TriggerCompaction()
		}
	}
	drive.LiftFsizeLimit()
	// what the background worker does after every cycle, failed or not
	_ = coord.CleanupObsoleteFiles()
	_ = coord.Stop()
	after, _ := filepath.Glob(filepath.Join(cfg.SSTDir, "*.sst"))
	if cerr != nil {
		ev.R().Count("compaction_errors", 1)
		if c.FaultLimit == 0 {
			ev.R().Note("compaction error: " + cerr.Error())
		}
	}
	changed := strings.Join(before, ",") != strings.Join(after, ",")
	classes := []string{"kind:component", "action:" + c.Action}
	if changed {
		classes = append(classes, "comp:files_changed")
	}
	if c.FaultLimit > 0 {
		classes = append(classes, "comp:under_file_size_limit")
		if cerr != nil {
			classes = append(classes, "comp:compaction_failed_under_limit")
		}
	}
	if d := checkOutputs(cfg.SSTDir); d != "" {
		return &failure{"comp:output-not-sorted@" + c.Action, d}, classes, changed
	}
	v1, err := engineView(db, c.Keys)
	if err != nil {
		return &failure{"comp:open-error-after@" + c.Action, err.Error()}, classes, changed
	}
	if d := v1.EqualModel(want, prog); d != "" {
		kind := "content"
		if strings.Contains(d, "want found=false") || strings.Contains(d, "live keys, model has") {
			kind = "content" // resurrect / lost are told apart below
		}
		// classify lost vs resurrected vs stale for the signature
		for _, k := range c.Keys {
			g, gf := v1.Gets[string(k)]
			w, wf := want[string(k)]
			if gf && !wf {
				kind = "resurrected"
				break
			}
			if !gf && wf {
				kind = "lost"
				break
			}
			if gf && wf && !bytes.Equal(g, w) {
				kind = "stale-or-wrong"
				break
			}
		}
		return &failure{"comp:" + kind + "@" + c.Action, fmt.Sprintf("view after compaction differs (files %d -> %d): %s", len(before), len(after), d)}, classes, changed
	}
	return nil, classes, changed
}

// conflict reports whether some key occurs in >= 2 input files with different content.
func conflict(c *CompCase) bool {
	seen := map[int]Ent{}
	for _, f := range c.Files {
		for _, e := range f.Ents {
			if o, ok := seen[e.K]; ok && (o.Tomb != e.Tomb || o.Tag != e.Tag) {
				return true
			}
			seen[e.K] = e
		}
	}
	return false
}

func genComp(t *rapid.T) CompCase {
	keys := gen.KeysWide(t, 4, 14)
	nk := len(keys)
	c := CompCase{Keys: keys,
		MaxMem:    rapid.IntRange(1, 4).Draw(t, "maxmem"),
		MaxTombLv: rapid.IntRange(0, 2).Draw(t, "maxtomblv"),
		Rounds:    rapid.IntRange(1, 4).Draw(t, "rounds"),
	}
	// a third of the cases: level sizes that differ by factors (fat and thin
	// files) and a low size ratio, with MaxMemTables above the number of level-0
	// files, so that the SIZE-RATIO selection runs, not only the count trigger
	sized := rapid.IntRange(0, 2).Draw(t, "sized") == 0
	if sized {
		c.Ratio = rapid.SampledFrom([]float64{1.5, 2, 4}).Draw(t, "ratio")
		c.MaxMem = rapid.IntRange(3, 8).Draw(t, "maxmem_sized")
	}
	tag := uint32(1)
	epoch := 0
	fat := false
	ent := func(k int) Ent {
		if rapid.IntRange(0, 3).Draw(t, "tomb") == 0 {
			return Ent{K: k, Tomb: true}
		}
		tag++
		if fat {
			return Ent{K: k, Tag: tag, Len: rapid.SampledFrom([]int{2000, 8000, 30000}).Draw(t, "fatlen")}
		}
		return Ent{K: k, Tag: tag, Len: rapid.SampledFrom([]int{0, 1, 5, 40, 300}).Draw(t, "len")}
	}
	// deeper levels first (oldest): each level is one epoch split into non-overlapping files
	// which deeper levels hold files: usually 1 and 2; now and then levels of two
	// digits (a level number is not zero-padded in a file name: "10_" sorts
	// before "1_" and "2_")
	deep := rapid.IntRange(0, 2).Draw(t, "deep")
	var deepLevels []int
	for lv := deep; lv >= 1; lv-- {
		deepLevels = append(deepLevels, lv)
	}
	if deep > 0 && rapid.IntRange(0, 4).Draw(t, "twodigit") == 0 {
		deepLevels = append([]int{rapid.SampledFrom([]int{10, 11, 12}).Draw(t, "deeplevel")}, deepLevels...)
	}
	for _, lv := range deepLevels {
		nf := rapid.IntRange(1, 3).Draw(t, "nfiles")
		// choose cut points in key index space
		per := (nk + nf - 1) / nf
		for fi := 0; fi < nf; fi++ {
			var ents []Ent
			fat = sized && rapid.IntRange(0, 3).Draw(t, "fatfile") == 0
			for k := fi * per; k < (fi+1)*per && k < nk; k++ {
				if rapid.IntRange(0, 2).Draw(t, "present") != 0 {
					ents = append(ents, ent(k))
				}
			}
			if len(ents) > 0 {
				c.Files = append(c.Files, File{Level: lv, Epoch: epoch, Ents: ents})
				epoch++ // distinct timestamps; same level files do not overlap so order among them is irrelevant
			}
		}
	}
	// level 0: overlapping files, one epoch each
	n0 := rapid.IntRange(1, 6).Draw(t, "n0")
	if sized {
		n0 = rapid.IntRange(1, 3).Draw(t, "n0_sized")
	}
	for i := 0; i < n0; i++ {
		var ents []Ent
		fat = sized && rapid.Bool().Draw(t, "fatfile0")
		for k := 0; k < nk; k++ {
			if rapid.IntRange(0, 2).Draw(t, "present0") == 0 {
				ents = append(ents, ent(k))
			}
		}
		if len(ents) == 0 {
			ents = append(ents, ent(rapid.IntRange(0, nk-1).Draw(t, "k0")))
		}
		c.Files = append(c.Files, File{Level: 0, Epoch: epoch, Ents: ents})
		epoch++
	}
	if rapid.IntRange(0, 2).Draw(t, "action") == 0 {
		c.Action = "range"
		c.A = rapid.IntRange(-1, nk-1).Draw(t, "ra")
		c.B = rapid.IntRange(-1, nk-1).Draw(t, "rb")
		if c.A >= 0 && c.B >= 0 && c.A > c.B {
			c.A, c.B = c.B, c.A
		}
		if c.A < 0 {
			c.A = 0 // CompactRange with a nil bound matches nothing (Overlaps needs keys); use real keys
		}
		if c.B < 0 {
			c.B = nk - 1
		}
		if !ev.Flag("compact_range_partial") && (c.A != 0 || c.B != nk-1) {
			ev.R().Exclude("compact_range_partial")
			c.A, c.B = 0, nk-1
		}
	} else {
		c.Action = "trigger"
	}
	// tombstone tracker knowledge: none (after restart) or a subset
	if rapid.Bool().Draw(t, "tracked") {
		for k := 0; k < nk; k++ {
			if rapid.Bool().Draw(t, "trk") {
				c.Tracked = append(c.Tracked, k)
			}
		}
	}
	if rapid.IntRange(0, 5).Draw(t, "fault") == 0 {
		// small enough that an output of a few entries already exceeds it
		c.FaultLimit = rapid.Int64Range(64, 4096).Draw(t, "fault_limit")
	}
	return c
}

func TestPropComponent(t *testing.T) {
	rapid.Check(t, func(t *rapid.T) {
		c := genComp(t)
		f, classes, changed := runComp(&c)
		nt := changed && conflict(&c)
		if conflict(&c) {
			classes = append(classes, "comp:key_in_several_files")
		}
		ev.R().Case(ev.Hash(&c), nt, classes, func() any { return &c })
		if f != nil {
			path := ev.R().Fail(f.sig, f.msg, Doc{Property: "C12", Kind: "component", Comp: &c, Failure: f.sig + ": " + f.msg})
			t.Fatalf("C12 violated: %s: %s (replay %s)", f.sig, f.msg, path)
		}
	})
}

// --------------------------------------------------------------- engine ----

// Doc is the replay document.
type Doc struct {
	Property string           `json:"property"`
	Kind     string           `json:"kind"` // component | engine | crash
	Comp     *CompCase        `json:"comp,omitempty"`
	Prog     *drive.Program   `json:"prog,omitempty"`
	Crash    *drive.CrashCase `json:"crash,omitempty"`
	Failure  string           `json:"failure,omitempty"`
}

func engOpts() gen.ProgOpts {
	w := map[string]int{"put": 10, "del": 5, "tx": 3, "batch": 2, "flush": 4, "compact": 4, "crange": 2, "retire": 3, "reopen": 3}
	return gen.ProgOpts{MinSteps: 10, MaxSteps: 70, Weights: w}
}

func engClasses(p *drive.Program) (bool, []string) {
	retired, compAfterRetire, nt := false, false, false
	for _, s := range p.Steps {
		switch s.Op {
		case "retire":
			retired = true
		case "compact", "crange":
			if retired {
				compAfterRetire = true
			}
		case "reopen":
			if compAfterRetire {
				nt = true
			}
		}
	}
	cl := []string{"kind:engine"}
	if retired {
		cl = append(cl, "eng:log_retired")
	}
	if nt {
		cl = append(cl, "eng:reopen_after_compaction_after_retire")
	}
	return nt, cl
}

func runEngine(p *drive.Program) *drive.Mismatch {
	dir, err := os.MkdirTemp("", "c12e-")
	if err != nil {
		panic(err)
	}
	defer os.RemoveAll(dir)
	r, mm := drive.NewRunner(dir, p)
	if mm != nil {
		return mm
	}
	defer r.Close()
	for i := range p.Steps {
		mm, err := r.Do(i)
		if mm != nil {
			return mm
		}
		if err != nil {
			ev.R().Count("cases_stopped_at_write_error", 1)
			return nil
		}
		if mm := r.CheckAll(i); mm != nil {
			return mm
		}
		if p.Steps[i].Op == "reopen" {
			// full scan after every reopen
			snap := drive.Observe(r.Eng, p)
			if d := snap.EqualModel(r.Model, p); d != "" {
				return &drive.Mismatch{Step: i, Kind: "scan", Key: -1, Msg: d, Ctx: "reopen"}
			}
		}
	}
	ev.R().Count("maintenance_errors", r.MaintErrors)
	return nil
}

func TestPropEngine(t *testing.T) {
	o := engOpts()
	rapid.Check(t, func(t *rapid.T) {
		p := gen.Program(t, o)
		// compaction needs several SSTables: small memtables, low L0 trigger
		p.Cfg.MemTableSize = rapid.SampledFrom([]int64{256, 512, 1024, 4096}).Draw(t, "mt")
		p.Cfg.MaxMemTables = rapid.IntRange(1, 4).Draw(t, "mm")
		// always end with retire + reopen so the compacted files alone serve the reads
		p.Steps = append(p.Steps, drive.Step{Op: "retire"}, drive.Step{Op: "compact"}, drive.Step{Op: "reopen"})
		if !ev.Flag("compact_range_partial") {
			for i := range p.Steps {
				if p.Steps[i].Op == "crange" {
					ev.R().Exclude("compact_range_partial")
					p.Steps[i].A, p.Steps[i].B = 0, len(p.Keys)-1
				}
			}
		}
		nt, classes := engClasses(&p)
		mm := runEngine(&p)
		ev.R().Case(ev.Hash(&p), nt, classes, func() any { return &p })
		if mm != nil {
			sig := "eng:" + mm.Signature()
			path := ev.R().Fail(sig, mm.Error(), Doc{Property: "C12", Kind: "engine", Prog: &p, Failure: sig + ": " + mm.Error()})
			t.Fatalf("C12 violated: %s: %v (replay %s)", sig, mm, path)
		}
	})
}

// ---------------------------------------------------------------- crash ----

func compactionSite(s string) bool {
	return strings.HasPrefix(s, "compaction.") || strings.HasPrefix(s, "sstable.")
}

func TestPropCrash(t *testing.T) {
	o := engOpts()
	o.MinSteps, o.MaxSteps = 6, 30
	rapid.Check(t, func(t *rapid.T) {
		p := gen.Program(t, o)
		p.Cfg.MemTableSize = rapid.SampledFrom([]int64{256, 512, 1024}).Draw(t, "mt")
		p.Cfg.MaxMemTables = rapid.IntRange(1, 3).Draw(t, "mm")
		p.Cfg.SyncMode = 2
		// drop reopen steps (rounds do the reopening), end with retire + compactions
		var steps []drive.Step
		for _, s := range p.Steps {
			if s.Op != "reopen" {
				if s.Op == "crange" && !ev.Flag("compact_range_partial") {
					s.A, s.B = 0, len(p.Keys)-1
				}
				steps = append(steps, s)
			}
		}
		steps = append(steps, drive.Step{Op: "retire"}, drive.Step{Op: "compact"}, drive.Step{Op: "compact"})
		p.Steps = steps
		c := drive.CrashCase{Program: p, Rounds: []drive.CrashRound{{To: len(p.Steps),
			SelA: rapid.Uint32().Draw(t, "selA"), SelB: rapid.Uint32().Draw(t, "selB")}}}
		f, classes := drive.RunCrashCase(&c, false, compactionSite)
		nt := false
		for _, cl := range classes {
			if cl == "crash:compaction" {
				nt = true
			}
		}
		classes = append(classes, "kind:crash")
		ev.R().Case(ev.Hash(&c), nt, classes, func() any { return &c })
		if f != nil {
			sig := "crash:" + f.Sig
			path := ev.R().Fail(sig, f.Msg, Doc{Property: "C12", Kind: "crash", Crash: &c, Failure: sig + ": " + f.Msg})
			t.Fatalf("C12 violated: %s: %s (replay %s)", sig, f.Msg, path)
		}
	})
}

func TestReplay(t *testing.T) {
	fn := os.Getenv("VERIF_REPLAY")
	if fn == "" {
		t.Skip("no VERIF_REPLAY")
	}
	b, err := os.ReadFile(fn)
	if err != nil {
		t.Fatal(err)
	}
	var d Doc
	if err := json.Unmarshal(b, &d); err != nil {
		t.Fatal(err)
	}
	var sig, msg string
	switch d.Kind {
	case "component":
		if f, _, _ := runComp(d.Comp); f != nil {
			sig, msg = f.sig, f.msg
		}
	case "engine":
		if mm := runEngine(d.Prog); mm != nil {
			sig, msg = "eng:"+mm.Signature(), mm.Error()
		}
	case "crash":
		// the order in which obsolete files are visited depended on map
		// iteration: re-execute a few times
		for i := 0; i < 12 && sig == ""; i++ {
			if f, _ := drive.RunCrashCase(d.Crash, true, compactionSite); f != nil {
				sig, msg = "crash:"+f.Sig, f.Msg
			}
		}
	default:
		t.Fatalf("unknown kind %q", d.Kind)
	}
	if sig != "" {
		ev.WriteReplayResult(ev.ReplayResult{File: fn, Outcome: "fail", Signature: sig, Message: msg})
		return
	}
	ev.WriteReplayResult(ev.ReplayResult{File: fn, Outcome: "pass"})
}

package c11

// Oracle clauses of C11. Each clause reports its own signatures and can be
// switched off with an ev.Flag:
//   sst_forward_exact   (a)  SeekToFirst+Next yields the written list exactly
//   sst_seek            (b)  Seek(t) lands on the first entry >= t, suffix exact
//   sst_seek_last       (b2) SeekToLast lands on the last entry
//   sst_get             (c)  Reader.Get finds exactly the written keys
//   sst_get_multiblock       (c) on tables with more than one data block
//   sst_corrupt         (d)  one changed byte: error, or only written tuples; no panic

import (
	"bytes"
	"fmt"
	"sort"

	"github.com/KevoDB/kevo/pkg/sstable"

	"verif/internal/ev"
)

// Viol is one violated oracle clause.
type Viol struct {
	Sig string `json:"sig"`
	Msg string `json:"msg"`
}

type viols struct {
	list []Viol
	seen map[string]bool
}

func (v *viols) add(sig, format string, a ...any) {
	if v.seen == nil {
		v.seen = map[string]bool{}
	}
	if v.seen[sig] {
		return
	}
	v.seen[sig] = true
	v.list = append(v.list, Viol{Sig: sig, Msg: fmt.Sprintf(format, a...)})
}

func short(b []byte) string {
	if len(b) <= 24 {
		return fmt.Sprintf("%x", b)
	}
	return fmt.Sprintf("%x..(%d bytes)", b[:16], len(b))
}

// tuple is what an iterator position shows.
type tuple struct {
	key, val []byte
	tomb     bool
	seq      uint64
}

func read(it *sstable.Iterator) tuple {
	return tuple{key: it.Key(), val: it.Value(), tomb: it.IsTombstone(), seq: it.SequenceNumber()}
}

// diffEntry compares a position with the expected row; "" if identical.
func diffEntry(got tuple, want row) (kind, msg string) {
	if !bytes.Equal(got.key, want.key) {
		return "key", fmt.Sprintf("key %s, want %s", short(got.key), short(want.key))
	}
	if got.tomb != want.tomb {
		if want.tomb {
			return "marker_reads_as_value", fmt.Sprintf("key %s: deletion marker reads as a value of %d bytes", short(got.key), len(got.val))
		}
		if len(want.val) == 0 {
			return "empty_value_reads_as_marker", fmt.Sprintf("key %s: empty value reads as a deletion marker", short(got.key))
		}
		return "value_reads_as_marker", fmt.Sprintf("key %s: value of %d bytes reads as a deletion marker", short(got.key), len(want.val))
	}
	if !bytes.Equal(got.val, want.val) {
		return "value", fmt.Sprintf("key %s: value %s, want %s", short(got.key), short(got.val), short(want.val))
	}
	if got.seq != want.seq {
		return "seq", fmt.Sprintf("key %s: sequence number %d, want %d", short(got.key), got.seq, want.seq)
	}
	return "", ""
}

func findKey(rows []row, k []byte) int { // index of first row with key >= k
	return sort.Search(len(rows), func(i int) bool { return bytes.Compare(rows[i].key, k) >= 0 })
}

// walk compares the iterator, which is expected to stand on rows[from], with
// rows[from:from+limit] using Valid/Next. ctx prefixes the signatures.
func walk(v *viols, it *sstable.Iterator, rows []row, l *layout, from, limit int, ctx, what string) {
	end := len(rows)
	if limit >= 0 && from+limit < end {
		end = from + limit
	}
	var prevKey []byte
	for i := from; i < end; i++ {
		if !it.Valid() {
			v.add(ctx+":ends_early@"+l.where(i), "%s: iteration ends before entry %d/%d (key %s)", what, i, len(rows), short(rows[i].key))
			return
		}
		got := read(it)
		if kind, msg := diffEntry(got, rows[i]); kind != "" {
			if kind == "key" {
				switch c := bytes.Compare(got.key, rows[i].key); {
				case prevKey != nil && bytes.Equal(got.key, prevKey):
					kind = "duplicate"
					msg = fmt.Sprintf("entry %d (key %s) is yielded twice", i-1, short(got.key))
					v.add(ctx+":"+kind+"@"+l.where(i-1), "%s: %s", what, msg)
					return
				case c > 0:
					kind = "skipped"
				default:
					kind = "out_of_order_or_unwritten_key"
				}
			}
			v.add(ctx+":"+kind+"@"+l.where(i), "%s: at entry %d/%d: %s", what, i, len(rows), msg)
			return
		}
		prevKey = got.key
		it.Next()
	}
	if end == len(rows) && it.Valid() {
		v.add(ctx+":extra_after_last", "%s: iterator still valid after the last entry, at key %s", what, short(it.Key()))
	}
}

// layoutOf reads the file and parses the region map (nil if unknown).
type tableInfo struct {
	l    *layout
	file []byte
}

// checkRoundTrip runs clauses (a)-(c) against a freshly written table.
func checkRoundTrip(c *RTCase) (vs []Viol, info caseInfo) {
	rows, err := materialise(c.Entries)
	if err != nil {
		panic("invalid case: " + err.Error())
	}
	dir, path := tempTable("c11-")
	defer removeAll(dir)
	v := &viols{}
	defer func() {
		if r := recover(); r != nil {
			v.add("panic:roundtrip:"+normalise(fmt.Sprint(r)), "panic while reading an unaltered table: %v", r)
			vs = v.list
		}
	}()
	if err := writeTable(path, rows); err != nil {
		v.add("write:error", "writing a strictly ascending entry list failed: %v", err)
		return v.list, info
	}
	file := readFile(path)
	l := parseLayout(file, rows)
	info = describe(rows, l, len(file))
	r, err := sstable.OpenReader(path)
	if err != nil {
		v.add("open:error", "OpenReader on an unaltered table: %v", err)
		return v.list, info
	}
	defer r.Close()

	// (a) forward iteration
	if c.wants("forward", "sst_forward_exact") {
		it := r.NewIterator()
		it.SeekToFirst()
		walk(v, it, rows, l, 0, -1, "forward", "SeekToFirst+Next")
	}

	// (b2) SeekToLast
	if c.wants("seeklast", "sst_seek_last") {
		it := r.NewIterator()
		it.SeekToLast()
		last := len(rows) - 1
		if !it.Valid() {
			v.add("seeklast:invalid", "SeekToLast: iterator invalid, want last entry %s", short(rows[last].key))
		} else if kind, msg := diffEntry(read(it), rows[last]); kind != "" {
			v.add("seeklast:"+kind+"@"+l.where(last), "SeekToLast: %s", msg)
		} else {
			it.Next()
			if it.Valid() {
				v.add("seeklast:next_still_valid", "SeekToLast then Next: still valid at %s", short(it.Key()))
			}
		}
	}

	// (b) Seek
	targets := c.allTargets(rows, l)
	info.targets = len(targets)
	if c.wants("seek", "sst_seek") {
		var shared *sstable.Iterator
		if c.Reuse {
			shared = r.NewIterator()
		}
		for ti, tg := range targets {
			tb := tg.bytes(rows)
			exp := findKey(rows, tb)
			if exp < len(rows) && l.interiorNonTrivial(exp) {
				info.ntTargets++
			}
			it := shared
			if it == nil {
				it = r.NewIterator()
			}
			ok := it.Seek(tb)
			tclass := "gap"
			switch {
			case exp == len(rows):
				tclass = "after_last"
			case bytes.Equal(rows[exp].key, tb):
				tclass = "present"
			case exp == 0:
				tclass = "before_first"
			}
			what := fmt.Sprintf("Seek(%s) [target %d: %s of entry %d, %s]", short(tb), ti, tg.R, tg.I, tclass)
			if exp == len(rows) {
				if ok {
					v.add("seek:"+tclass+":returns_true", "%s: no entry >= target, but Seek returned true (key %s)", what, short(it.Key()))
				} else if it.Valid() {
					v.add("seek:"+tclass+":valid_after_false", "%s: no entry >= target and Seek returned false, but the iterator is valid at key %s", what, short(it.Key()))
				}
				continue
			}
			if !ok || !it.Valid() {
				v.add("seek:"+tclass+":invalid_but_entry_exists@"+l.where(exp), "%s: returned %v, Valid()=%v; want entry %d (key %s)", what, ok, it.Valid(), exp, short(rows[exp].key))
				continue
			}
			got := read(it)
			if kind, msg := diffEntry(got, rows[exp]); kind != "" {
				if kind == "key" {
					if bytes.Compare(got.key, rows[exp].key) > 0 {
						kind = "lands_late"
					} else {
						kind = "lands_early"
					}
				}
				v.add("seek:"+tclass+":"+kind+"@"+l.where(exp), "%s: %s (want entry %d)", what, msg, exp)
				continue
			}
			limit := 40
			if len(rows) <= 300 || ti < 6 {
				limit = -1
			}
			walk(v, it, rows, l, exp, limit, "seek:"+tclass+":suffix", what+" then Next")
		}
	}

	// (e) two iterators of ONE reader used alternately, with point lookups in
	// between: iterator A walks the whole table; every c.Inter entries iterator
	// B seeks somewhere else and a Get reads a key of another region. What A
	// yields afterwards must be unaffected (blocks of one reader may be alive
	// side by side).
	multi := l != nil && len(l.Blocks) > 1
	if c.Inter > 0 && c.wants("interleaved", "sst_interleaved") {
		a := r.NewIterator()
		a.SeekToFirst()
		b := r.NewIterator()
		ti := 0
		getOK := !multi || ev.Flag("sst_get_multiblock")
	inter:
		for i := 0; i < len(rows); i++ {
			if !a.Valid() {
				v.add("interleaved:ends_early@"+l.where(i), "walk next to a second iterator: iteration ends before entry %d/%d (key %s)", i, len(rows), short(rows[i].key))
				break
			}
			if kind, msg := diffEntry(read(a), rows[i]); kind != "" {
				v.add("interleaved:"+kind+"@"+l.where(i), "walk next to a second iterator (every %d entries): at entry %d/%d: %s", c.Inter, i, len(rows), msg)
				break
			}
			if i%c.Inter == c.Inter-1 {
				if len(targets) > 0 {
					tg := targets[ti%len(targets)]
					ti += 7
					tb := tg.bytes(rows)
					exp := findKey(rows, tb)
					ok := b.Seek(tb)
					if exp < len(rows) {
						if !ok || !b.Valid() {
							v.add("interleaved:seek_invalid@"+l.where(exp), "second iterator Seek(%s): returned %v, Valid()=%v; want entry %d", short(tb), ok, b.Valid(), exp)
							break inter
						}
						if kind, msg := diffEntry(read(b), rows[exp]); kind != "" {
							v.add("interleaved:seek_"+kind+"@"+l.where(exp), "second iterator Seek(%s): %s (want entry %d)", short(tb), msg, exp)
							break inter
						}
					}
				}
				if getOK {
					j := (i*31 + 17) % len(rows)
					val, err := r.Get(rows[j].key)
					switch {
					case err != nil:
						v.add("interleaved:get_not_found@"+l.where(j), "Get(%s) between iterator steps: %v", short(rows[j].key), err)
						break inter
					case (val == nil) != rows[j].tomb || !bytes.Equal(val, rows[j].val):
						v.add("interleaved:get_value@"+l.where(j), "Get(%s) between iterator steps: value %s, want %s (marker=%v)", short(rows[j].key), short(val), short(rows[j].val), rows[j].tomb)
						break inter
					}
				}
			}
			a.Next()
		}
	}

	// (c) point lookups
	switch {
	case !c.wants("get", "sst_get"):
	case multi && !ev.Flag("sst_get_multiblock"):
		ev.R().Exclude("sst_get_multiblock")
	default:
		for i, rw := range rows {
			val, err := r.Get(rw.key)
			if err != nil {
				v.add("get:written_key_not_found@"+l.where(i), "Get(%s) (entry %d/%d): %v", short(rw.key), i, len(rows), err)
				continue
			}
			switch {
			case (val == nil) != rw.tomb && rw.tomb:
				v.add("get:marker_reads_as_value@"+l.where(i), "Get(%s): deletion marker reads as value %s", short(rw.key), short(val))
			case (val == nil) != rw.tomb && len(rw.val) == 0:
				v.add("get:empty_value_reads_as_marker@"+l.where(i), "Get(%s): empty value reads as nil (deletion marker)", short(rw.key))
			case (val == nil) != rw.tomb:
				v.add("get:value_reads_as_marker@"+l.where(i), "Get(%s): value reads as nil (deletion marker)", short(rw.key))
			case !bytes.Equal(val, rw.val):
				v.add("get:value@"+l.where(i), "Get(%s): value %s, want %s", short(rw.key), short(val), short(rw.val))
			}
		}
		gaps := 0
		for _, tg := range targets {
			if gaps >= 400 {
				break
			}
			tb := tg.bytes(rows)
			if len(tb) == 0 {
				continue
			}
			exp := findKey(rows, tb)
			if exp < len(rows) && bytes.Equal(rows[exp].key, tb) {
				continue
			}
			gaps++
			val, err := r.Get(tb)
			if err == nil {
				v.add("get:unwritten_key_found", "Get(%s) (%s of entry %d, never written) returned value %s without error", short(tb), tg.R, tg.I, short(val))
			}
		}
		info.gapGets = gaps
	}
	return v.list, info
}

// ---------------------------------------------------------------------------
// (d) corruption

// observe performs the read operations of (a)-(c) on a possibly altered file
// and checks that everything it sees was written. Errors and early ends are
// fine. A panic is reported.
func observe(v *viols, path string, rows []row, region string, what string) (opened bool) {
	defer func() {
		if r := recover(); r != nil {
			v.add("corrupt:"+region+":panic:"+normalise(fmt.Sprint(r)), "%s: panic: %v", what, r)
		}
	}()
	r, err := sstable.OpenReader(path)
	if err != nil {
		return false
	}
	defer r.Close()
	member := func(op string, got tuple) bool {
		i := findKey(rows, got.key)
		if i == len(rows) || !bytes.Equal(rows[i].key, got.key) {
			v.add("corrupt:"+region+":"+op+":unwritten_key", "%s: %s shows key %s which was never written", what, op, short(got.key))
			return false
		}
		if kind, msg := diffEntry(got, rows[i]); kind != "" {
			v.add("corrupt:"+region+":"+op+":"+kind, "%s: %s shows an altered entry: %s", what, op, msg)
			return false
		}
		return true
	}
	// forward iteration, bounded (an altered index may loop; the property does not speak about that)
	it := r.NewIterator()
	it.SeekToFirst()
	for steps := 0; it.Valid() && steps < 2*len(rows)+8; steps++ {
		if !member("iterate", read(it)) {
			break
		}
		it.Next()
	}
	it = r.NewIterator()
	it.SeekToLast()
	if it.Valid() {
		member("seeklast", read(it))
	}
	// seeks and lookups on a spread of keys
	step := len(rows)/24 + 1
	for i := 0; i < len(rows); i += step {
		it := r.NewIterator()
		if it.Seek(rows[i].key) && it.Valid() {
			if member("seek", read(it)) {
				for n := 0; n < 3; n++ {
					it.Next()
					if !it.Valid() || !member("seek_next", read(it)) {
						break
					}
				}
			}
		}
		val, err := r.Get(rows[i].key)
		if err == nil {
			got := tuple{key: rows[i].key, val: val, tomb: val == nil, seq: rows[i].seq}
			member("get", got)
		}
		gap := append(append([]byte{}, rows[i].key...), 0x00)
		if j := findKey(rows, gap); j == len(rows) || !bytes.Equal(rows[j].key, gap) {
			if val, err := r.Get(gap); err == nil {
				v.add("corrupt:"+region+":get:unwritten_key", "%s: Get(%s) (never written) returned %s without error", what, short(gap), short(val))
			}
		}
	}
	return true
}

func normalise(s string) string {
	// keep letters only so that addresses / lengths do not split one signature into many
	b := make([]byte, 0, len(s))
	for i := 0; i < len(s) && len(b) < 60; i++ {
		c := s[i]
		switch {
		case c >= 'a' && c <= 'z', c >= 'A' && c <= 'Z':
			b = append(b, c)
		case len(b) > 0 && b[len(b)-1] != '_':
			b = append(b, '_')
		}
	}
	return string(b)
}

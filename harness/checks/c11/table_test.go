package c11

// Case values (what rapid shrinks, what is hashed, sampled, saved and
// replayed), their materialisation, and an independent parser of the file
// layout that is used ONLY to classify cases, to name positions in failure
// signatures and to aim faults at file regions - never as an oracle.

import (
	"bytes"
	"encoding/binary"
	"encoding/hex"
	"fmt"
	"os"
	"path/filepath"
	"sort"

	"github.com/KevoDB/kevo/pkg/sstable"
)

// Entry is one table entry. The key is P filler bytes 'p' followed by the
// bytes of the hex string T; the value is V deterministic bytes (V = 0: empty
// non-nil value, V = -1: deletion marker, written as a nil value).
type Entry struct {
	P int    `json:"p,omitempty"`
	T string `json:"t"`
	V int    `json:"v"`
	S uint64 `json:"s"`
}

// Key renders the key bytes.
func (e Entry) Key() []byte {
	tail, err := hex.DecodeString(e.T)
	if err != nil {
		panic("bad hex tail in case: " + e.T)
	}
	k := make([]byte, 0, e.P+len(tail))
	k = append(k, bytes.Repeat([]byte{'p'}, e.P)...)
	return append(k, tail...)
}

// row is a materialised entry.
type row struct {
	key  []byte
	val  []byte // nil for a deletion marker, non-nil (possibly empty) otherwise
	tomb bool
	seq  uint64
}

func fnv64(b []byte) uint64 {
	h := uint64(14695981039346656037)
	for _, c := range b {
		h ^= uint64(c)
		h *= 1099511628211
	}
	return h
}

// fill renders a value of length n whose content is a function of the key, so
// that a value read back identifies the entry it belongs to.
func fill(key []byte, n int) []byte {
	v := make([]byte, n)
	x := fnv64(key) | 1
	for i := range v {
		if i%8 == 0 {
			x ^= x << 13
			x ^= x >> 7
			x ^= x << 17
		}
		v[i] = byte(x >> (8 * uint(i%8)))
	}
	return v
}

// materialise renders the rows of a table; it reports an error if the entry
// list is not strictly ascending with non-empty keys (the property's
// precondition) - generated cases always are, hand-written replays might not be.
func materialise(es []Entry) ([]row, error) {
	rows := make([]row, len(es))
	for i, e := range es {
		k := e.Key()
		if len(k) > 65535 {
			return nil, fmt.Errorf("entry %d: key length %d outside 0..65535", i, len(k))
		}
		if i > 0 && bytes.Compare(rows[i-1].key, k) >= 0 {
			return nil, fmt.Errorf("entry %d: keys not strictly ascending", i)
		}
		r := row{key: k, seq: e.S}
		if e.V < 0 {
			r.tomb = true
		} else {
			r.val = fill(k, e.V)
		}
		rows[i] = r
	}
	return rows, nil
}

// writeTable writes the rows with the public writer API.
func writeTable(path string, rows []row) error {
	w, err := sstable.NewWriter(path)
	if err != nil {
		return fmt.Errorf("NewWriter: %w", err)
	}
	for i, r := range rows {
		var v []byte
		if !r.tomb {
			v = r.val
			if v == nil {
				v = []byte{}
			}
		}
		if err := w.AddWithSequence(r.key, v, r.seq); err != nil {
			_ = w.Abort()
			return fmt.Errorf("AddWithSequence(entry %d): %w", i, err)
		}
	}
	if err := w.Finish(); err != nil {
		return fmt.Errorf("Finish: %w", err)
	}
	return nil
}

// ---------------------------------------------------------------------------
// independent layout parser (classification only)

type blockInfo struct {
	Off, Size   int
	First, N    int // index of the first entry of the block in the table, number of entries
	NumRestarts int
}

type layout struct {
	FileSize            int
	Blocks              []blockInfo
	BloomOff, BloomSize int
	IndexOff, IndexSize int
	FooterOff           int
	blockOf             []int    // entry index -> block number
	bloomHeaders        [][2]int // [start,end) of every per-block filter header (12-byte record prefix + 32-byte filter header)
}

const footerSize = 68

type rawEntry struct {
	key, val []byte
}

// decodeBlock is an own decoder of the block format (restart array at the
// end, full key at restart offsets, shared/unshared lengths elsewhere).
func decodeBlock(data []byte) (ents []rawEntry, numRestarts int, err error) {
	if len(data) < 16 {
		return nil, 0, fmt.Errorf("short block")
	}
	nr := int(binary.LittleEndian.Uint32(data[len(data)-12:]))
	end := len(data) - 12 - 4*nr
	if nr <= 0 || end < 0 {
		return nil, 0, fmt.Errorf("bad restart count")
	}
	restarts := map[int]bool{}
	for i := 0; i < nr; i++ {
		restarts[int(binary.LittleEndian.Uint32(data[end+4*i:]))] = true
	}
	pos := 0
	var prev []byte
	for pos < end {
		var key []byte
		if restarts[pos] {
			if pos+2 > end {
				return nil, 0, fmt.Errorf("truncated")
			}
			kl := int(binary.LittleEndian.Uint16(data[pos:]))
			pos += 2
			if pos+kl > end {
				return nil, 0, fmt.Errorf("truncated")
			}
			key = append([]byte{}, data[pos:pos+kl]...)
			pos += kl
		} else {
			if pos+4 > end {
				return nil, 0, fmt.Errorf("truncated")
			}
			sh := int(binary.LittleEndian.Uint16(data[pos:]))
			un := int(binary.LittleEndian.Uint16(data[pos+2:]))
			pos += 4
			if sh > len(prev) || pos+un > end {
				return nil, 0, fmt.Errorf("bad delta")
			}
			key = append(append([]byte{}, prev[:sh]...), data[pos:pos+un]...)
			pos += un
		}
		if pos+12 > end {
			return nil, 0, fmt.Errorf("truncated")
		}
		pos += 8
		vl := binary.LittleEndian.Uint32(data[pos:])
		pos += 4
		var val []byte
		if vl != 0xFFFFFFFF {
			if pos+int(vl) > end {
				return nil, 0, fmt.Errorf("truncated value")
			}
			val = data[pos : pos+int(vl)]
			pos += int(vl)
		}
		ents = append(ents, rawEntry{key, val})
		prev = key
	}
	return ents, nr, nil
}

// parseLayout reads the region map of a table file; nil if the file does not
// look like the format this parser knows (then cases are classified
// "layout_unknown" and nothing else changes).
func parseLayout(file []byte, rows []row) *layout {
	if len(file) < footerSize {
		return nil
	}
	ft := file[len(file)-footerSize:]
	l := &layout{FileSize: len(file), FooterOff: len(file) - footerSize}
	l.IndexOff = int(binary.LittleEndian.Uint64(ft[20:]))
	l.IndexSize = int(binary.LittleEndian.Uint32(ft[28:]))
	l.BloomOff = int(binary.LittleEndian.Uint64(ft[44:]))
	l.BloomSize = int(binary.LittleEndian.Uint32(ft[52:]))
	if l.IndexOff <= 0 || l.IndexSize <= 0 || l.IndexOff+l.IndexSize > l.FooterOff {
		return nil
	}
	if l.BloomSize > 0 && (l.BloomOff <= 0 || l.BloomOff+l.BloomSize > l.IndexOff) {
		return nil
	}
	for pos := l.BloomOff; l.BloomSize > 0 && pos+12 <= l.BloomOff+l.BloomSize; {
		sz := int(binary.LittleEndian.Uint32(file[pos+8:]))
		l.bloomHeaders = append(l.bloomHeaders, [2]int{pos, min(pos+12+32, l.BloomOff+l.BloomSize)})
		pos += 12 + sz
	}
	ents, _, err := decodeBlock(file[l.IndexOff : l.IndexOff+l.IndexSize])
	if err != nil || len(ents) == 0 {
		return nil
	}
	for _, e := range ents {
		if len(e.val) < 12 {
			return nil
		}
		off := int(binary.LittleEndian.Uint64(e.val))
		size := int(binary.LittleEndian.Uint32(e.val[8:]))
		if off < 0 || size < 16 || off+size > len(file) {
			return nil
		}
		first := sort.Search(len(rows), func(i int) bool { return bytes.Compare(rows[i].key, e.key) >= 0 })
		if first >= len(rows) || !bytes.Equal(rows[first].key, e.key) {
			return nil
		}
		nr := int(binary.LittleEndian.Uint32(file[off+size-12:]))
		l.Blocks = append(l.Blocks, blockInfo{Off: off, Size: size, First: first, NumRestarts: nr})
	}
	if l.Blocks[0].First != 0 {
		return nil
	}
	l.blockOf = make([]int, len(rows))
	for b := range l.Blocks {
		next := len(rows)
		if b+1 < len(l.Blocks) {
			next = l.Blocks[b+1].First
		}
		if next <= l.Blocks[b].First {
			return nil
		}
		l.Blocks[b].N = next - l.Blocks[b].First
		for i := l.Blocks[b].First; i < next; i++ {
			l.blockOf[i] = b
		}
	}
	return l
}

// intervals returns the number of restart intervals of the largest block.
func (l *layout) maxRestarts() int {
	m := 0
	for _, b := range l.Blocks {
		if b.NumRestarts > m {
			m = b.NumRestarts
		}
	}
	return m
}

// where names the position of entry i for signatures: first block / later
// block, first / later restart interval (restart interval = 16 entries).
func (l *layout) where(i int) string {
	if l == nil || i < 0 || i >= len(l.blockOf) {
		return "pos?"
	}
	b := l.blockOf[i]
	j := i - l.Blocks[b].First
	s := "block0"
	if b > 0 {
		s = "block+"
	}
	switch {
	case j == 0:
		s += ".first"
	case j == l.Blocks[b].N-1:
		s += ".last"
	case j%16 == 0:
		s += ".restart"
	case j < 16:
		s += ".interval0"
	default:
		s += ".interval+"
	}
	return s
}

// interiorNonTrivial reports whether entry i lies in the interior of a
// non-last restart interval or in a non-first block (the NT rule).
func (l *layout) interiorNonTrivial(i int) bool {
	if l == nil || i < 0 || i >= len(l.blockOf) {
		return false
	}
	b := l.blockOf[i]
	if b > 0 {
		return true
	}
	j := i - l.Blocks[b].First
	lastInterval := (l.Blocks[b].N - 1) / 16
	return j%16 != 0 && j/16 < lastInterval
}

// inBloomHeader reports whether p lies in a per-block filter header; if so it
// also returns the first position after that header.
func (l *layout) inBloomHeader(p int) (bool, int) {
	if l == nil {
		return false, 0
	}
	for _, h := range l.bloomHeaders {
		if p >= h[0] && p < h[1] {
			return true, h[1]
		}
	}
	return false, 0
}

// region names the file region of byte offset p.
func (l *layout) region(p int) string {
	switch {
	case l == nil:
		return "any"
	case p >= l.FooterOff:
		return "footer"
	case p >= l.IndexOff:
		return "index"
	case l.BloomSize > 0 && p >= l.BloomOff:
		return "bloom"
	default:
		return "data"
	}
}

func (l *layout) regionSpan(name string) (off, size int) {
	switch name {
	case "footer":
		return l.FooterOff, footerSize
	case "index":
		return l.IndexOff, l.IndexSize
	case "bloom":
		if l.BloomSize > 0 {
			return l.BloomOff, l.BloomSize
		}
	case "data":
		end := l.IndexOff
		if l.BloomSize > 0 {
			end = l.BloomOff
		}
		return 0, end
	}
	return 0, l.FileSize
}

func tempTable(prefix string) (dir, path string) {
	dir, err := os.MkdirTemp("", prefix)
	if err != nil {
		panic(err)
	}
	return dir, filepath.Join(dir, "t.sst")
}

// C11 - an SSTable reads back exactly what was written into it.
// Round trip + seek oracle + byte-fault injection (DESIGN.md 5/C11).
package c11

import (
	"bytes"
	"encoding/json"
	"fmt"
	"os"
	"os/exec"
	"path/filepath"
	"strconv"
	"strings"
	"syscall"
	"testing"
	"time"

	"pgregory.net/rapid"

	"verif/internal/ev"
)

const rule = "cases = rapid-drawn strictly ascending entry lists (1-3000 entries; counter/ascii/binary/long-prefix/big-value/mixed profiles; " +
	"values, empty values and deletion markers; arbitrary uint64 sequence numbers; value sizes aimed at the 64 KiB block cut) written with " +
	"sstable.NewWriter/AddWithSequence/Finish. TestPropRoundTrip: (a) SeekToFirst+Next equals the list, (b) Seek(t) for every key and every " +
	"gap (all for <= 300 entries, drawn plus block edges above) lands on the first entry >= t or is invalid and Next yields the exact suffix, " +
	"(b2) SeekToLast, (c) Get finds every written key and no gap key; non-trivial = the table has >= 2 data blocks or a block with >= 2 " +
	"restart intervals AND a seek target whose answer lies in the interior of a non-last restart interval or in a non-first block. " +
	"TestPropCorrupt: (d) one byte of the file XORed (region data/bloom/index/footer, every position of files <= 4 KiB in the thorough tier): " +
	"open/iterate/seek/get either fail or show only written tuples, no panic, no process crash (child process with 8 GiB address space); " +
	"non-trivial = faults in >= 2 distinct regions of such a table. distinct by FNV-64 of the case JSON (entry list + targets/faults)"

func TestMain(m *testing.M) {
	if d := os.Getenv("C11_CHILD"); d != "" {
		childMain(d)
		return
	}
	ev.Silence()
	rec := ev.Init("C11", rule)
	code := m.Run()
	rec.Flush(true)
	os.Exit(code)
}

// RTCase is a round-trip case.
type RTCase struct {
	Entries []Entry  `json:"entries"`
	Targets []Target `json:"targets,omitempty"` // drawn targets, in addition to the derived ones
	Reuse   bool     `json:"reuse,omitempty"`   // one iterator for all seeks instead of a fresh one per seek
	Inter   int      `json:"inter,omitempty"`   // > 0: clause (e), a second iterator and a Get every Inter entries of a full walk
	// Clauses, if non-empty, restricts the case to the named oracle clauses
	// (forward | seeklast | seek | get | interleaved). Generated cases leave it empty; it
	// lets a regression replay show the one signature it was saved for.
	Clauses []string `json:"clauses,omitempty"`
}

func (c *RTCase) wants(clause, flag string) bool {
	if len(c.Clauses) > 0 {
		found := false
		for _, x := range c.Clauses {
			found = found || x == clause
		}
		if !found {
			return false
		}
	}
	if !ev.Flag(flag) {
		ev.R().Exclude(flag)
		return false
	}
	return true
}

// COCase is a corruption case.
type COCase struct {
	Entries []Entry `json:"entries"`
	Faults  []Fault `json:"faults,omitempty"`
	AllX    uint8   `json:"all_x,omitempty"` // != 0: additionally every byte position of the file, XORed with this
}

// Doc is the replay document.
type Doc struct {
	Property   string  `json:"property"`
	Kind       string  `json:"kind"` // roundtrip | corrupt
	RT         *RTCase `json:"rt,omitempty"`
	CO         *COCase `json:"co,omitempty"`
	Violations []Viol  `json:"violations,omitempty"`
	Note       string  `json:"note,omitempty"`
}

type caseInfo struct {
	classes   []string
	multi     bool // >= 2 blocks or >= 2 restart intervals
	targets   int
	ntTargets int
	gapGets   int
}

func describe(rows []row, l *layout, fileSize int) (info caseInfo) {
	add := func(c string) { info.classes = append(info.classes, c) }
	n := len(rows)
	switch {
	case n <= 3:
		add("n<=3")
	case n > 300:
		add("n>300")
	}
	if rows[0].tomb {
		add("first_is_marker")
	} else if len(rows[0].val) == 0 {
		add("first_is_empty_value")
	}
	if rows[n-1].tomb {
		add("last_is_marker")
	} else if len(rows[n-1].val) == 0 {
		add("last_is_empty_value")
	}
	prefixKeys, longShared, bigSeq, anyTomb, anyEmpty := false, false, false, false, false
	for i, r := range rows {
		if i > 0 && bytes.HasPrefix(r.key, rows[i-1].key) {
			prefixKeys = true
		}
		if i > 0 && len(r.key) >= 200 && len(rows[i-1].key) >= 200 && bytes.Equal(r.key[:200], rows[i-1].key[:200]) {
			longShared = true
		}
		if r.seq >= 1<<63 {
			bigSeq = true
		}
		if r.tomb {
			anyTomb = true
		} else if len(r.val) == 0 {
			anyEmpty = true
		}
	}
	if prefixKeys {
		add("key_is_prefix_of_successor")
	}
	if longShared {
		add("shared_prefix>=200")
	}
	if bigSeq {
		add("seq>=2^63")
	}
	if anyTomb {
		add("has_marker")
	}
	if anyEmpty {
		add("has_empty_value")
	}
	if l == nil {
		add("layout_unknown")
		return
	}
	if len(l.Blocks) >= 2 {
		add("blocks>=2")
		info.multi = true
	}
	if len(l.Blocks) >= 4 {
		add("blocks>=4")
	}
	if len(l.Blocks) > 16 {
		add("index_restart_intervals>=2")
	}
	if m := l.maxRestarts(); m >= 2 {
		add("restart_intervals>=2")
		info.multi = true
		if m >= 8 {
			add("restart_intervals>=8")
		}
	}
	tombEdge, emptyEdge, single := false, false, false
	for _, b := range l.Blocks {
		if b.N == 1 {
			single = true
		}
		if len(l.Blocks) < 2 {
			break
		}
		for _, i := range []int{b.First, b.First + b.N - 1} {
			if rows[i].tomb {
				tombEdge = true
			} else if len(rows[i].val) == 0 {
				emptyEdge = true
			}
		}
	}
	if tombEdge {
		add("marker_at_block_edge")
	}
	if emptyEdge {
		add("empty_value_at_block_edge")
	}
	if single && len(l.Blocks) >= 2 {
		add("block_of_one_entry")
	}
	return
}

// allTargets = drawn targets + below-all + above-all + derived targets: every
// key / successor / predecessor for tables of <= 300 entries, otherwise the
// edges of every block and of the first restart intervals.
func (c *RTCase) allTargets(rows []row, l *layout) []Target {
	ts := append([]Target{}, c.Targets...)
	ts = append(ts, Target{R: "low"}, Target{R: "high"})
	n := len(rows)
	if n <= 300 {
		for i := 0; i < n; i++ {
			ts = append(ts, Target{i, "at"}, Target{i, "succ"}, Target{i, "pred"})
			if n <= 60 {
				ts = append(ts, Target{i, "half"}, Target{i, "inc"})
			}
		}
		return ts
	}
	if l != nil {
		seen := map[int]bool{}
		addIdx := func(i int) {
			if i >= 0 && i < n && !seen[i] {
				seen[i] = true
				ts = append(ts, Target{i, "at"}, Target{i, "succ"}, Target{i, "pred"})
			}
		}
		for bi, b := range l.Blocks {
			if bi > 24 {
				break
			}
			addIdx(b.First)
			addIdx(b.First + b.N - 1)
			addIdx(b.First + 1)
			for _, j := range []int{15, 16, 17} {
				if j < b.N {
					addIdx(b.First + j)
				}
			}
		}
	}
	return ts
}

func readFile(p string) []byte {
	b, err := os.ReadFile(p)
	if err != nil {
		panic(err)
	}
	return b
}

func removeAll(d string) { _ = os.RemoveAll(d) }

func reportAll(kind string, vs []Viol, mk func(v Viol) Doc) string {
	first := ""
	for _, v := range vs {
		p := ev.R().Fail(v.Sig, v.Msg, mk(v))
		if first == "" {
			first = p
		}
	}
	return first
}

func TestPropRoundTrip(t *testing.T) {
	rapid.Check(t, propRoundTrip)
}

// FuzzRoundTrip / FuzzCorrupt drive the same properties (same generators, same
// oracles) from Go's native coverage-guided fuzzer: the fuzzer's bytes are the
// entropy rapid draws from (thorough tier only, bounded -fuzztime).
func FuzzRoundTrip(f *testing.F) { f.Fuzz(rapid.MakeFuzz(propRoundTrip)) }

func FuzzCorrupt(f *testing.F) { f.Fuzz(rapid.MakeFuzz(propCorrupt)) }

func propRoundTrip(t *rapid.T) {
	{
		c := RTCase{Entries: genTable(t, false)}
		nt := 8
		if len(c.Entries) > 300 {
			nt = 40
		}
		c.Targets = genTargets(t, len(c.Entries), nt)
		c.Reuse = rapid.Bool().Draw(t, "reuse")
		if rapid.IntRange(0, 2).Draw(t, "interleave") == 0 {
			c.Inter = rapid.SampledFrom([]int{1, 2, 5, 17, 100}).Draw(t, "inter")
		}
		vs, info := checkRoundTrip(&c)
		classes := append([]string{"roundtrip"}, info.classes...)
		nontrivial := info.multi && info.ntTargets > 0
		if nontrivial {
			classes = append(classes, "rt_nontrivial")
		}
		if c.Reuse {
			classes = append(classes, "iterator_reused_across_seeks")
		}
		if c.Inter > 0 {
			classes = append(classes, "two_iterators_and_gets_interleaved")
		}
		ev.R().Count("seek_targets", info.targets)
		ev.R().Count("seek_targets_nontrivial", info.ntTargets)
		ev.R().Count("gap_lookups", info.gapGets)
		ev.R().Count("entries_written", len(c.Entries))
		ev.R().Case(ev.Hash(&c), nontrivial, classes, func() any { return &c })
		if len(vs) > 0 {
			path := reportAll("roundtrip", vs, func(v Viol) Doc {
				return Doc{Property: "C11", Kind: "roundtrip", RT: &c, Violations: []Viol{v}}
			})
			t.Fatalf("C11 violated: %s: %s (replay %s)", vs[0].Sig, vs[0].Msg, path)
		}
	}
}

// ---------------------------------------------------------------------------
// corruption

type resolvedFault struct {
	f   Fault
	pos int
	reg string
}

func resolveFaults(c *COCase, l *layout, fileSize int) []resolvedFault {
	var out []resolvedFault
	for _, f := range c.Faults {
		off, size := 0, fileSize
		if l != nil {
			off, size = l.regionSpan(f.Region)
		}
		if size <= 0 {
			off, size = 0, fileSize
		}
		p := off + int(f.Off)%size
		if f.Region == "blocktail" && l != nil && len(l.Blocks) > 0 {
			// the trailer of a data block (or of the index block): restart
			// offsets, restart count, checksum - the last 28 bytes
			b := l.Blocks[int(f.Off>>8)%len(l.Blocks)]
			endOff := b.Off + b.Size
			if (f.Off>>8)%5 == 4 {
				endOff = l.IndexOff + l.IndexSize
			}
			p = endOff - 1 - int(f.Off&0xff)%28
			if p < 0 {
				p = 0
			}
		}
		if in, next := l.inBloomHeader(p); in && !ev.Flag("sst_corrupt_bloom_header") {
			// open finding: the per-block filter header is trusted unchecked;
			// move the fault into the filter's bit array
			ev.R().Exclude("sst_corrupt_bloom_header")
			if next >= l.BloomOff+l.BloomSize {
				next = 0
			}
			p = next
		}
		x := f
		if x.X == 0 {
			x.X = 1
		}
		out = append(out, resolvedFault{f: x, pos: p, reg: l.region(p)})
	}
	if c.AllX != 0 {
		for p := 0; p < fileSize; p++ {
			if in, _ := l.inBloomHeader(p); in && !ev.Flag("sst_corrupt_bloom_header") {
				ev.R().Exclude("sst_corrupt_bloom_header")
				continue
			}
			out = append(out, resolvedFault{f: Fault{Region: "any", Off: uint32(p), X: c.AllX}, pos: p, reg: l.region(p)})
		}
	}
	return out
}

// FaultViol is a violation together with the single fault that caused it.
type faultViol struct {
	Viol
	f Fault
}

const childTimeout = 120 * time.Second

func checkCorrupt(c *COCase) (fvs []faultViol, info caseInfo) {
	rows, err := materialise(c.Entries)
	if err != nil {
		panic("invalid case: " + err.Error())
	}
	dir, path := tempTable("c11c-")
	defer removeAll(dir)
	if err := writeTable(path, rows); err != nil {
		return []faultViol{{Viol: Viol{"write:error", "writing a strictly ascending entry list failed: " + err.Error()}}}, info
	}
	file := readFile(path)
	l := parseLayout(file, rows)
	info = describe(rows, l, len(file))
	// baseline: the unaltered file must already show only written tuples;
	// otherwise the failure is a round-trip failure, not an effect of a fault
	base := &viols{}
	observe(base, path, rows, "unaltered_file", "unaltered file")
	if len(base.list) > 0 {
		for _, x := range base.list {
			fvs = append(fvs, faultViol{Viol: x})
		}
		return fvs, info
	}
	faults := resolveFaults(c, l, len(file))
	regions := map[string]bool{}
	for i, rf := range faults {
		regions[rf.reg] = true
		b := append([]byte{}, file...)
		b[rf.pos] ^= rf.f.X
		if err := os.WriteFile(filepath.Join(dir, fmt.Sprintf("f%d.sst", i)), b, 0o644); err != nil {
			panic(err)
		}
	}
	for r := range regions {
		info.classes = append(info.classes, "fault_in_"+r)
	}
	info.targets = len(faults)
	info.ntTargets = len(regions)

	// pass 1: a child process performs every operation first, so that a
	// crash that recover() cannot catch (fatal runtime error, e.g. an
	// allocation request of many GiB taken from an unchecked header) is seen
	// as a failure of this case instead of killing the test process
	upto := len(faults)
	if ev.Flag("sst_corrupt_child") && len(faults) > 0 {
		cj, _ := json.Marshal(c.Entries)
		if err := os.WriteFile(filepath.Join(dir, "entries.json"), cj, 0o644); err != nil {
			panic(err)
		}
		_ = os.WriteFile(filepath.Join(dir, "count"), []byte(strconv.Itoa(len(faults))), 0o644)
		crashedAt, msg, timedOut := runChild(dir)
		switch {
		case timedOut:
			ev.R().Count("child_timeouts", 1)
			ev.R().Note(fmt.Sprintf("child exceeded %v at fault %d (%+v); case skipped", childTimeout, crashedAt, faults[max(crashedAt, 0)].f))
			return nil, info
		case crashedAt >= 0:
			rf := faults[crashedAt]
			fvs = append(fvs, faultViol{Viol{"corrupt:" + rf.reg + ":process_crash:" + normalise(msg),
				fmt.Sprintf("byte %d (%s region) ^= %#x: the reading process died: %s", rf.pos, rf.reg, rf.f.X, msg)}, rf.f})
			upto = crashedAt
		}
	}
	// pass 2: in-process, with the oracle
	opened := 0
	for i := 0; i < upto; i++ {
		rf := faults[i]
		v := &viols{}
		what := fmt.Sprintf("byte %d (%s region, file of %d bytes) ^= %#x", rf.pos, rf.reg, len(file), rf.f.X)
		if observe(v, filepath.Join(dir, fmt.Sprintf("f%d.sst", i)), rows, rf.reg, what) {
			opened++
		}
		for _, x := range v.list {
			fvs = append(fvs, faultViol{x, rf.f})
		}
	}
	ev.R().Count("faults_tried", upto)
	ev.R().Count("faults_open_succeeded", opened)
	if opened > 0 {
		info.classes = append(info.classes, "altered_file_opened")
	}
	return fvs, info
}

// runChild re-executes the test binary in child mode on dir. It returns the
// index of the fault being processed when the child died (-1 = clean exit).
func runChild(dir string) (crashedAt int, msg string, timedOut bool) {
	cmd := exec.Command(os.Args[0], "-test.run=^$")
	cmd.Env = append(os.Environ(), "C11_CHILD="+dir)
	var stderr bytes.Buffer
	cmd.Stderr = &stderr
	cmd.Stdout = nil
	if err := cmd.Start(); err != nil {
		panic("cannot start child: " + err.Error())
	}
	done := make(chan error, 1)
	go func() { done <- cmd.Wait() }()
	var err error
	select {
	case err = <-done:
	case <-time.After(childTimeout):
		_ = cmd.Process.Kill()
		<-done
		timedOut = true
	}
	at := -1
	if b, e := os.ReadFile(filepath.Join(dir, "progress")); e == nil {
		at, _ = strconv.Atoi(strings.TrimSpace(string(b)))
	}
	if timedOut {
		return at, "timeout", true
	}
	if err == nil {
		return -1, "", false
	}
	line := ""
	for _, ln := range strings.Split(stderr.String(), "\n") {
		if strings.HasPrefix(ln, "fatal error:") || strings.HasPrefix(ln, "panic:") || strings.HasPrefix(ln, "runtime:") {
			line = ln
			if !strings.HasPrefix(ln, "runtime:") {
				break
			}
		}
	}
	if line == "" {
		line = "exit: " + err.Error()
	}
	if at < 0 {
		panic("child failed before the first fault: " + err.Error() + ": " + stderr.String())
	}
	return at, line, false
}

// childMain: open and read every altered file of dir, noting progress.
func childMain(dir string) {
	lim := uint64(8 << 30)
	_ = syscall.Setrlimit(syscall.RLIMIT_AS, &syscall.Rlimit{Cur: lim, Max: lim})
	if f, err := os.OpenFile(os.DevNull, os.O_WRONLY, 0); err == nil {
		os.Stdout = f
	}
	var es []Entry
	if err := json.Unmarshal(readFile(filepath.Join(dir, "entries.json")), &es); err != nil {
		fmt.Fprintln(os.Stderr, "child: bad entries:", err)
		os.Exit(3)
	}
	rows, err := materialise(es)
	if err != nil {
		fmt.Fprintln(os.Stderr, "child:", err)
		os.Exit(3)
	}
	n, _ := strconv.Atoi(strings.TrimSpace(string(readFile(filepath.Join(dir, "count")))))
	prog := filepath.Join(dir, "progress")
	for i := 0; i < n; i++ {
		if err := os.WriteFile(prog, []byte(strconv.Itoa(i)), 0o644); err != nil {
			os.Exit(3)
		}
		v := &viols{}
		observe(v, filepath.Join(dir, fmt.Sprintf("f%d.sst", i)), rows, "x", "child")
	}
	os.Exit(0)
}

func TestPropCorrupt(t *testing.T) {
	if !ev.Flag("sst_corrupt") {
		ev.R().Exclude("sst_corrupt")
		t.Skip("sst_corrupt is switched off")
	}
	rapid.Check(t, propCorrupt)
}

func propCorrupt(t *rapid.T) {
	{
		c := COCase{Entries: genTable(t, true)}
		c.Faults = genFaults(t, rapid.IntRange(8, 32).Draw(t, "nfaults"))
		if ev.Tier() == "thorough" && rapid.IntRange(0, 3).Draw(t, "allpos") == 0 {
			sz := 0
			for _, e := range c.Entries {
				sz += e.P + len(e.T)/2 + max(e.V, 0) + 20
			}
			if sz <= 2400 { // file <= ~4 KiB including bloom filter, index and footer
				c.AllX = uint8(rapid.SampledFrom([]int{1, 0x80, 0xff, 0x10}).Draw(t, "allx"))
			}
		}
		fvs, info := checkCorrupt(&c)
		classes := append([]string{"corrupt"}, info.classes...)
		nontrivial := info.multi && info.ntTargets >= 2
		if nontrivial {
			classes = append(classes, "co_nontrivial")
		}
		if c.AllX != 0 {
			classes = append(classes, "every_position_of_small_file")
		}
		ev.R().Case(ev.Hash(&c), nontrivial, classes, func() any { return &c })
		if len(fvs) > 0 {
			first := ""
			for _, fv := range fvs {
				one := COCase{Entries: c.Entries}
				if fv.f.X != 0 {
					one.Faults = []Fault{fv.f}
				}
				p := ev.R().Fail(fv.Sig, fv.Msg, Doc{Property: "C11", Kind: "corrupt", CO: &one, Violations: []Viol{fv.Viol}})
				if first == "" {
					first = p
				}
			}
			t.Fatalf("C11 violated: %s: %s (replay %s)", fvs[0].Sig, fvs[0].Msg, first)
		}
	}
}

// TestReplay re-runs a saved case without the library.
func TestReplay(t *testing.T) {
	f := os.Getenv("VERIF_REPLAY")
	if f == "" {
		t.Skip("no VERIF_REPLAY")
	}
	b, err := os.ReadFile(f)
	if err != nil {
		t.Fatal(err)
	}
	var d Doc
	if err := json.Unmarshal(b, &d); err != nil {
		t.Fatal(err)
	}
	var vs []Viol
	switch {
	case d.Kind == "corrupt" && d.CO != nil:
		fvs, _ := checkCorrupt(d.CO)
		for _, fv := range fvs {
			vs = append(vs, fv.Viol)
		}
	case d.RT != nil:
		vs, _ = checkRoundTrip(d.RT)
	default:
		t.Fatalf("replay document %s has no case", f)
	}
	if len(vs) > 0 {
		msg := vs[0].Msg
		for _, v := range vs[1:] {
			msg += " | also " + v.Sig
		}
		ev.WriteReplayResult(ev.ReplayResult{File: f, Outcome: "fail", Signature: vs[0].Sig, Message: msg})
		t.Logf("replay fails: %s: %s", vs[0].Sig, msg)
		return
	}
	ev.WriteReplayResult(ev.ReplayResult{File: f, Outcome: "pass"})
}

package c11

// rapid generators for tables, seek targets and faults. Every random choice
// is a rapid draw.

import (
	"bytes"
	"encoding/hex"
	"fmt"
	"sort"

	"pgregory.net/rapid"

	"verif/internal/ev"
)

// blockThreshold and the estimate below mirror sstable.IndexKeyInterval and
// block.Builder.EstimatedSize. They are used by the GENERATOR only, to aim
// value sizes at the point where the writer cuts a block; the oracle never
// depends on them.
const blockThreshold = 64 * 1024

func estAfter(es []Entry, from, to int) int { // estimate after entries [from,to] are in the builder
	sz := 0
	for i := from; i <= to; i++ {
		v := es[i].V
		if v < 0 {
			v = 0
		}
		sz += es[i].P + len(es[i].T)/2 + v + 16
	}
	n := to - from + 1
	return sz + 4*((n+15)/16) + 12
}

var seqGen = rapid.OneOf(
	rapid.Uint64Range(0, 1000),
	rapid.SampledFrom([]uint64{0, 1, 1<<32 - 1, 1 << 32, 1<<63 - 1, 1 << 63, 1<<64 - 1, 0xFFFFFFFF00000000}),
	rapid.Uint64(),
)

type kindMix struct{ tomb, empty int } // percentages

func drawKind(t *rapid.T, m kindMix) string {
	x := rapid.IntRange(0, 99).Draw(t, "kind")
	switch {
	case x < m.tomb:
		return "tomb"
	case x < m.tomb+m.empty:
		return "empty"
	}
	return "value"
}

func applyKind(e *Entry, kind string) {
	switch kind {
	case "tomb":
		e.V = -1
	case "empty":
		if !ev.Flag("sst_empty_values") {
			ev.R().Exclude("sst_empty_values")
			e.V = 1
			return
		}
		e.V = 0
	}
}

// genTable draws a strictly ascending entry list. small = keep files small
// (used by the corruption property so that more faults per second are tried).
func genTable(t *rapid.T, small bool) []Entry {
	profiles := []string{"counter", "counter", "ascii", "binary", "longprefix", "bigvalues", "bigvalues", "mixed", "edge", "composite", "composite"}
	profile := rapid.SampledFrom(profiles).Draw(t, "profile")
	mix := kindMix{
		tomb:  rapid.SampledFrom([]int{0, 10, 30, 60}).Draw(t, "tombpct"),
		empty: rapid.SampledFrom([]int{0, 10, 30}).Draw(t, "emptypct"),
	}
	tiny := rapid.IntRange(1, 8)
	var es []Entry
	switch profile {
	case "counter":
		// ascending by construction: big-endian counter tails with drawn gaps;
		// neighbours share long prefixes; hundreds of tiny entries per block
		hi := 3000
		if small {
			hi = 120
		}
		n := rapid.OneOf(rapid.IntRange(17, 64), rapid.IntRange(65, 300), rapid.IntRange(301, hi+301)).Draw(t, "n")
		if n > hi {
			n = hi
		}
		p := rapid.SampledFrom([]int{0, 0, 3, 40, 200}).Draw(t, "plen")
		c := rapid.IntRange(0, 1<<16).Draw(t, "start")
		gaps := rapid.SampledFrom([][]int{{1}, {1, 1, 2, 3}, {1, 2, 255, 256, 257}}).Draw(t, "gaps")
		for i := 0; i < n; i++ {
			c += rapid.SampledFrom(gaps).Draw(t, "gap")
			e := Entry{P: p, T: hex.EncodeToString([]byte{byte(c >> 16), byte(c >> 8), byte(c)}), S: seqGen.Draw(t, "seq")}
			e.V = tiny.Draw(t, "vlen")
			applyKind(&e, drawKind(t, mix))
			es = append(es, e)
		}
	case "ascii", "binary":
		hi := 200
		if small {
			hi = 60
		}
		n := rapid.IntRange(2, hi).Draw(t, "n")
		p := rapid.SampledFrom([]int{0, 0, 1, 5}).Draw(t, "plen")
		alphabet := []byte("abc")
		maxLen := 5
		if profile == "binary" {
			alphabet = []byte{0x00, 0x01, 0x7f, 0x80, 0xfe, 0xff, 'a'}
			maxLen = 4
		}
		for i := 0; i < n; i++ {
			l := rapid.IntRange(1, maxLen).Draw(t, "klen")
			k := make([]byte, l)
			for j := range k {
				k[j] = rapid.SampledFrom(alphabet).Draw(t, "kb")
			}
			e := Entry{P: p, T: hex.EncodeToString(k), S: seqGen.Draw(t, "seq")}
			e.V = rapid.OneOf(tiny, tiny, rapid.IntRange(9, 300)).Draw(t, "vlen")
			applyKind(&e, drawKind(t, mix))
			es = append(es, e)
		}
	case "longprefix":
		pls := []int{200, 1000, 4000, 4000}
		if small {
			pls = []int{200, 1000}
		}
		p := rapid.SampledFrom(pls).Draw(t, "plen")
		hi := 120
		if small {
			hi = 30
		}
		n := rapid.IntRange(2, hi).Draw(t, "n")
		for i := 0; i < n; i++ {
			l := rapid.IntRange(0, 3).Draw(t, "klen")
			k := make([]byte, l)
			for j := range k {
				k[j] = rapid.SampledFrom([]byte{0x00, 'a', 'b', 'p', 'q', 0xff}).Draw(t, "kb")
			}
			e := Entry{P: p, T: hex.EncodeToString(k), S: seqGen.Draw(t, "seq")}
			e.V = tiny.Draw(t, "vlen")
			applyKind(&e, drawKind(t, mix))
			es = append(es, e)
		}
		if !small && ev.Flag("sst_max_keys") && rapid.IntRange(0, 9).Draw(t, "maxkey") == 0 {
			// keys at the format limit (16-bit key length)
			es = append(es, Entry{P: 65534, T: "61", V: 3, S: 7}, Entry{P: 65535, T: "", V: -1, S: 8}, Entry{P: 65534, T: "71", V: 0, S: 9})
		}
	case "bigvalues":
		hi := 24
		if small {
			hi = 6
		}
		n := rapid.IntRange(2, hi).Draw(t, "n")
		big := rapid.OneOf(rapid.IntRange(20000, 70000), rapid.IntRange(60000, 66000), rapid.IntRange(1, 64))
		if !small && ev.Tier() == "thorough" {
			big = rapid.OneOf(rapid.IntRange(20000, 70000), rapid.IntRange(60000, 66000), rapid.IntRange(1, 64), rapid.IntRange(100000, 1500000))
		}
		if !small && rapid.IntRange(0, 5).Draw(t, "manyblocks") == 0 {
			ev.R().Count("gen_manyblocks_mode", 1)
			n = rapid.IntRange(36, 60).Draw(t, "n2") // more than 16 blocks: the index block gets a second restart interval
			// values that fill a block on their own: one block per big entry
			big = rapid.OneOf(rapid.IntRange(65500, 66000), rapid.IntRange(65500, 66000), rapid.IntRange(65500, 66000), rapid.IntRange(1, 64))
			mix.tomb, mix.empty = min(mix.tomb, 10), min(mix.empty, 10)
		}
		c := 0
		for i := 0; i < n; i++ {
			c += rapid.IntRange(1, 3).Draw(t, "gap")
			e := Entry{P: rapid.SampledFrom([]int{0, 2}).Draw(t, "plen"), T: hex.EncodeToString([]byte{'k', byte(c >> 8), byte(c)}), S: seqGen.Draw(t, "seq")}
			e.V = big.Draw(t, "vlen")
			applyKind(&e, drawKind(t, mix))
			es = append(es, e)
		}
	case "mixed":
		hi := 400
		if small {
			hi = 50
		}
		n := rapid.IntRange(20, hi).Draw(t, "n")
		c := rapid.IntRange(0, 1<<12).Draw(t, "start")
		vl := rapid.OneOf(tiny, tiny, tiny, tiny, rapid.IntRange(200, 4000), rapid.IntRange(8000, 40000))
		if small {
			vl = rapid.OneOf(tiny, tiny, tiny, rapid.IntRange(200, 4000))
		}
		for i := 0; i < n; i++ {
			c += rapid.IntRange(1, 4).Draw(t, "gap")
			tail := []byte{byte(c >> 8), byte(c)}
			if rapid.IntRange(0, 5).Draw(t, "ext") == 0 {
				tail = append(tail, 0x00) // the next key may extend this one
			}
			e := Entry{P: 2, T: hex.EncodeToString(tail), S: seqGen.Draw(t, "seq")}
			e.V = vl.Draw(t, "vlen")
			applyKind(&e, drawKind(t, mix))
			es = append(es, e)
		}
	case "composite":
		// keys whose varying part sits in the MIDDLE: shared head, a field that
		// differs between neighbours, then a tail that is the same again
		// ("acct/000017/balance"): a key shares bytes with its predecessor both
		// before and behind the first difference
		hi := 400
		if small {
			hi = 60
		}
		n := rapid.IntRange(2, hi).Draw(t, "n")
		head := rapid.SliceOfN(rapid.SampledFrom([]byte{'a', 'c', '/', 0x00, 0xff}), 0, 12).Draw(t, "head")
		nsuf := rapid.IntRange(1, 3).Draw(t, "nsuf")
		var sufs [][]byte
		for i := 0; i < nsuf; i++ {
			sufs = append(sufs, rapid.SliceOfN(rapid.SampledFrom([]byte{'/', 'b', 'l', 'x', 0x00, 0xff}), 1, 20).Draw(t, "suf"))
		}
		width := rapid.IntRange(1, 8).Draw(t, "width")
		decimal := rapid.Bool().Draw(t, "decimal")
		c := rapid.IntRange(0, 1<<12).Draw(t, "start")
		for i := 0; i < n; i++ {
			c += rapid.SampledFrom([]int{1, 1, 1, 2, 7, 16, 255, 256, 4096}).Draw(t, "gap")
			var mid []byte
			if decimal {
				mid = []byte(fmt.Sprintf("%0*d", width, c))
			} else {
				mid = make([]byte, width)
				for j, x := width-1, c; j >= 0; j, x = j-1, x>>8 {
					mid[j] = byte(x)
				}
			}
			k := append(append(append([]byte{}, head...), mid...), rapid.SampledFrom(sufs).Draw(t, "sufpick")...)
			e := Entry{T: hex.EncodeToString(k), S: seqGen.Draw(t, "seq")}
			e.V = rapid.OneOf(tiny, tiny, rapid.IntRange(9, 300)).Draw(t, "vlen")
			applyKind(&e, drawKind(t, mix))
			es = append(es, e)
		}
	default: // edge
		n := rapid.IntRange(1, 3).Draw(t, "n")
		for i := 0; i < n; i++ {
			e := Entry{P: rapid.IntRange(0, 2).Draw(t, "plen"), T: hex.EncodeToString([]byte{byte('a' + i)}), S: seqGen.Draw(t, "seq")}
			e.V = rapid.OneOf(tiny, rapid.IntRange(65000, 66000)).Draw(t, "vlen")
			applyKind(&e, drawKind(t, mix))
			es = append(es, e)
		}
	}
	// the zero-length key (the writer and the engine accept it; it sorts first)
	if rapid.IntRange(0, 7).Draw(t, "emptykey") == 0 {
		e := Entry{T: "", S: seqGen.Draw(t, "seq")}
		e.V = tiny.Draw(t, "vlen")
		applyKind(&e, drawKind(t, mix))
		es = append(es, e)
	}
	es = sortDedup(es)
	// first / last positions: force a kind now and then
	applyKind(&es[0], rapid.SampledFrom([]string{"keep", "keep", "tomb", "empty"}).Draw(t, "firstkind"))
	applyKind(&es[len(es)-1], rapid.SampledFrom([]string{"keep", "keep", "tomb", "empty"}).Draw(t, "lastkind"))

	// "fit": size one value so that the writer's block estimate reaches the
	// cut threshold exactly at (or one byte before / after) a chosen entry j,
	// and give entry j and its successor drawn kinds: tombstones and empty
	// values at block edges.
	if len(es) >= 2 && rapid.IntRange(0, 2).Draw(t, "fit") == 0 {
		j := rapid.IntRange(1, min(len(es)-1, 40)).Draw(t, "fitpos")
		d := rapid.IntRange(-1, 1).Draw(t, "fitdelta")
		applyKind(&es[j], rapid.SampledFrom([]string{"keep", "tomb", "empty"}).Draw(t, "fitkind"))
		if j+1 < len(es) {
			applyKind(&es[j+1], rapid.SampledFrom([]string{"keep", "tomb", "empty"}).Draw(t, "fitnext"))
		}
		// find the start of the block that contains j under the estimate
		start := 0
		for i := 0; i < j-1; i++ {
			if estAfter(es, start, i) >= blockThreshold {
				start = i + 1
			}
		}
		if start <= j-1 {
			es[j-1].V = 0
			need := blockThreshold + d - estAfter(es, start, j)
			if need >= 1 && need <= 70000 {
				es[j-1].V = need
			} else {
				es[j-1].V = 1
			}
		}
	}
	return es
}

func sortDedup(es []Entry) []Entry {
	type ke struct {
		k []byte
		e Entry
	}
	ks := make([]ke, len(es))
	for i, e := range es {
		ks[i] = ke{e.Key(), e}
	}
	sort.SliceStable(ks, func(i, j int) bool { return bytes.Compare(ks[i].k, ks[j].k) < 0 })
	out := es[:0]
	for i := range ks {
		if i > 0 && bytes.Equal(ks[i].k, ks[i-1].k) {
			continue
		}
		out = append(out, ks[i].e)
	}
	if len(out) == 0 {
		out = append(out, Entry{T: "61", V: 1})
	}
	return out
}

// Target is a seek target / lookup key derived from entry I.
//
//	at    the key itself
//	succ  key + 0x00 (the smallest byte string above the key)
//	pred  a byte string just below the key
//	half  the first half of the key (a proper prefix)
//	inc   the key with its last byte incremented
//	low   the empty byte string (below every key)
//	high  0xff.. longer than every key (above every key)
type Target struct {
	I int    `json:"i"`
	R string `json:"r"`
}

func (tg Target) bytes(rows []row) []byte {
	if tg.R == "low" {
		return []byte{}
	}
	if tg.R == "high" {
		m := 0
		for _, r := range rows {
			if len(r.key) > m {
				m = len(r.key)
			}
		}
		if m > 70 {
			// longest key + 1 would be long; 0xff.. of 70 bytes is above every generated key
			// unless a key starts with 70 0xff bytes (never generated); the oracle
			// computes the expected position from the bytes anyway
			m = 70
		}
		return bytes.Repeat([]byte{0xff}, m+1)
	}
	i := tg.I
	if i < 0 {
		i = 0
	}
	if i >= len(rows) {
		i = len(rows) - 1
	}
	k := rows[i].key
	switch tg.R {
	case "succ":
		return append(append([]byte{}, k...), 0x00)
	case "pred":
		if len(k) == 0 {
			return []byte{} // the empty key has no predecessor
		}
		last := k[len(k)-1]
		if last == 0 {
			return append([]byte{}, k[:len(k)-1]...)
		}
		return append(append(append([]byte{}, k[:len(k)-1]...), last-1), 0xff)
	case "half":
		return append([]byte{}, k[:len(k)/2]...)
	case "inc":
		if len(k) == 0 {
			return []byte{0x00}
		}
		last := k[len(k)-1]
		if last == 0xff {
			return append(append([]byte{}, k...), 0x01)
		}
		return append(append([]byte{}, k[:len(k)-1]...), last+1)
	}
	return append([]byte{}, k...)
}

var targetKinds = []string{"at", "at", "succ", "pred", "half", "inc"}

func genTargets(t *rapid.T, n, count int) []Target {
	var ts []Target
	for i := 0; i < count; i++ {
		ts = append(ts, Target{I: rapid.IntRange(0, n-1).Draw(t, "ti"), R: rapid.SampledFrom(targetKinds).Draw(t, "tr")})
	}
	return ts
}

// Fault flips bits of one byte: the byte at offset (Off mod length of the
// region) of the named region (data | bloom | index | footer | any) is XORed
// with X (1..255).
type Fault struct {
	Region string `json:"region"`
	Off    uint32 `json:"off"`
	X      uint8  `json:"x"`
}

func genFaults(t *rapid.T, count int) []Fault {
	regions := []string{"data", "data", "data", "bloom", "bloom", "bloom", "index", "index", "footer", "footer", "any", "blocktail", "blocktail", "blocktail"}
	var fs []Fault
	for i := 0; i < count; i++ {
		f := Fault{
			Region: rapid.SampledFrom(regions).Draw(t, "region"),
			X:      uint8(rapid.OneOf(rapid.SampledFrom([]int{1, 0x80, 0xff, 2, 0x40}), rapid.IntRange(1, 255)).Draw(t, "xor")),
		}
		// small offsets (headers of the region) and arbitrary offsets
		f.Off = uint32(rapid.OneOf(rapid.IntRange(0, 64), rapid.IntRange(0, 1<<22)).Draw(t, "off"))
		if f.Region == "bloom" && !ev.Flag("sst_corrupt_bloom") {
			ev.R().Exclude("sst_corrupt_bloom")
			f.Region = "data"
		}
		fs = append(fs, f)
	}
	return fs
}

#!/usr/bin/env python3
import json,sys,base64
for fn in sys.argv[1:]:
    d=json.load(open(fn))
    c=d.get('case') or d
    print(fn); print(' ', d.get('failure'))
    p=c['program']
    print('  cfg',p['cfg'],'keys',[base64.b64decode(k)[:8] for k in p['keys']])
    print('  rounds',c.get('rounds'))
    for i,s in enumerate(p['steps']): print('   ',i,json.dumps(s))

# Hand-maintained texts for MANIFEST.json (see gen_manifest.py).
HOOK_COMMITS = ["026508d", "8691f91", "0cd55ea", "278276f", "838c2fd", "312ae8b"]

NOT_APPLICABLE = {}

META = {
    "C01": {
        "text": "Search-based: thousands of rapid-generated operation programs (put/delete/transactions/batches/flush/compaction/range compaction/reopen) over drawn configurations and key pools are run against the real embedded engine next to a map model; every pool key is read after every step and after a final reopen. A pass means no counter-example among the generated programs, never absence.",
        "design_ref": "DESIGN.md section 5, C01",
        "note": "Single client; the background flush goroutine is quiesced between steps (hook VerifImmutableCount) so each case is a function of its program; process-level semantics; the model (a Go map) and the interpreter are trusted.",
        "technique": "model-based property testing over generated operation programs (rapid), map oracle",
    },
}

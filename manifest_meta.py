# Hand-maintained texts for MANIFEST.json (see gen_manifest.py).
HOOK_COMMITS = ["026508d", "8691f91", "0cd55ea", "278276f", "838c2fd", "312ae8b"]

NOT_APPLICABLE = {}

META = {
    "C01": {
        "text": "Search-based: thousands of rapid-generated operation programs (put/delete/transactions/batches/flush/compaction/range compaction/reopen) over drawn configurations and key pools are run against the real embedded engine next to a map model; every pool key is read after every step and after a final reopen. A pass means no counter-example among the generated programs, never absence.",
        "design_ref": "DESIGN.md section 5, C01",
        "note": "Single client; the background flush goroutine is quiesced between steps (hook VerifImmutableCount) so each case is a function of its program; process-level semantics; the model (a Go map) and the interpreter are trusted.",
        "technique": "model-based property testing over generated operation programs (rapid), map oracle",
    },
    "C02": {
        "text": "Fault enumeration by search: generated write programs (all sync modes, small memtables, log volumes beyond the memtable budget) are run in a child process that is killed (os.Exit at a named hook site, n-th hit; no cleanup) at crash points chosen from the profile of that very program, over 1-3 crash/recover rounds on one directory; after each reopen Get of every key and a full scan must equal ONE prefix state S_p of the issued history with lower <= p <= acked+1 (lower = acked under synchronous logging and after clean close). The thorough tier additionally enumerates ALL crash points of small programs. A pass means no counter-example among the explored (program, crash point) pairs.",
        "design_ref": "DESIGN.md section 5, C02",
        "note": "Crash = process death: bytes handed to write(2) survive, user-space buffers do not; fsync/power loss/torn sectors are not modelled (torn tails are covered by C03/C10 truncation). Hook sites are the only stop points. Background flush quiesced between steps so hit counts are reproducible. Trusted: the map model, the child/ack protocol, tmpfs semantics.",
        "technique": "crash-point enumeration in a child process (hook site x hit), prefix-state oracle over generated programs (rapid)",
    },
    "C03": {
        "text": "Four generated sub-checks: (1) transaction-heavy programs killed at hits of wal.batch/storage.batch/tx.commit/wal.sync hook sites, prefix-state oracle (a strict subset of a transaction is not a prefix state); (2) the newest log is cut at byte offsets inside the last transaction's byte range and reopened (torn final write); (3) one writer committing tagged transactions over all K keys (engine Commit or KevoService.BatchWrite) against concurrent readers: ordered Get pairs must be tag-monotone and read-only transactions/scans must see one tag, under a generated yield plan at commit hook sites; (4) sequential bodies with repeated keys, put/delete mixes, commit/rollback while the caller reuses and scribbles over one key and one value buffer, map-model oracle also after reopen. Known finding D24 (torn batch partially replayed; log format) is reported and its fault class excluded by construction.",
        "design_ref": "DESIGN.md section 5, C03",
        "note": "Crash = process death at hook sites; torn write = truncation. Concurrent visibility is decided per recorded execution with perturbation, not over all schedules. A commit failure can only be provoked through inputs (no I/O fault injection). Trusted: models, hook placement.",
        "technique": "crash/torn-write fault enumeration with prefix-state oracle; concurrent tag-monotonicity invariant; buffer-reuse model test (rapid)",
    },
}

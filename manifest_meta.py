# Hand-maintained texts for MANIFEST.json (see gen_manifest.py).
HOOK_COMMITS = ["026508d", "8691f91", "0cd55ea", "278276f", "838c2fd", "312ae8b"]

NOT_APPLICABLE = {}

META = {
    "C01": {
        "text": "Search-based: thousands of rapid-generated operation programs (put/delete/transactions/batches/flush/compaction/range compaction/reopen) over drawn configurations and key pools are run against the real embedded engine next to a map model; every pool key is read after every step and after a final reopen. A pass means no counter-example among the generated programs, never absence.",
        "design_ref": "DESIGN.md section 5, C01",
        "note": "Single client; the background flush goroutine is quiesced between steps (hook VerifImmutableCount) so each case is a function of its program; process-level semantics; the model (a Go map) and the interpreter are trusted.",
        "technique": "model-based property testing over generated operation programs (rapid), map oracle",
    },
    "C02": {
        "text": "Fault enumeration by search: generated write programs (all sync modes, small memtables, log volumes beyond the memtable budget) are run in a child process that is killed (os.Exit at a named hook site, n-th hit; no cleanup) at crash points chosen from the profile of that very program, over 1-3 crash/recover rounds on one directory; after each reopen Get of every key and a full scan must equal ONE prefix state S_p of the issued history with lower <= p <= acked+1 (lower = acked under synchronous logging and after clean close). The thorough tier additionally enumerates ALL crash points of small programs. A pass means no counter-example among the explored (program, crash point) pairs.",
        "design_ref": "DESIGN.md section 5, C02",
        "note": "Crash = process death: bytes handed to write(2) survive, user-space buffers do not; fsync/power loss/torn sectors are not modelled (torn tails are covered by C03/C10 truncation). Hook sites are the only stop points. Background flush quiesced between steps so hit counts are reproducible. Trusted: the map model, the child/ack protocol, tmpfs semantics.",
        "technique": "crash-point enumeration in a child process (hook site x hit), prefix-state oracle over generated programs (rapid)",
    },
    "C03": {
        "text": "Four generated sub-checks: (1) transaction-heavy programs killed at hits of wal.batch/storage.batch/tx.commit/wal.sync hook sites, prefix-state oracle (a strict subset of a transaction is not a prefix state); (2) the newest log is cut at byte offsets inside the last transaction's byte range and reopened (torn final write); (3) one writer committing tagged transactions over all K keys (engine Commit or KevoService.BatchWrite) against concurrent readers: ordered Get pairs must be tag-monotone and read-only transactions/scans must see one tag, under a generated yield plan at commit hook sites; (4) sequential bodies with repeated keys, put/delete mixes, commit/rollback while the caller reuses and scribbles over one key and one value buffer, map-model oracle also after reopen. Known finding D24 (torn batch partially replayed; log format) is reported and its fault class excluded by construction.",
        "design_ref": "DESIGN.md section 5, C03",
        "note": "Crash = process death at hook sites; torn write = truncation. Concurrent visibility is decided per recorded execution with perturbation, not over all schedules. A commit failure can only be provoked through inputs (no I/O fault injection). Trusted: models, hook placement.",
        "technique": "crash/torn-write fault enumeration with prefix-state oracle; concurrent tag-monotonicity invariant; buffer-reuse model test (rapid)",
    },
    "C05": {
        "text": "Search-based: a generated program builds a layer arrangement on the real engine (several immutable memtables, several SSTables, versions of a key in many layers, tombstones over older values, reopen, and 'retire' = flush everything and drop the flushed logs so reads come from SSTables only); then 20-60 generated queries (full scan, [start,end) ranges with bounds present/absent/between/equal/inverted/nil, Seek+Next, SeekToLast, BoundedIterator and prefix/suffix FilteredIterator compositions as the service builds them, inside read-write transactions with an uncommitted overlay and read-only transactions) are compared exactly with the sorted live keys of a map model; a concurrent phase checks scans next to writers of other keys (strictly ascending, duplicate-free, every stable key present).",
        "design_ref": "DESIGN.md section 5, C05",
        "note": "Iterators are consumed the way KevoService.Scan consumes them (tombstones skipped by the consumer). Non-nil empty bounds are not generated. Build phase single-client with quiesced background flush; concurrent phase samples schedules. Trusted: the map model and query interpreter.",
        "technique": "model-based property testing: generated layer arrangements x generated queries vs. sorted-model oracle (rapid)",
    },
    "C11": {
        "text": "Round trip by search: strictly ascending entry lists (1-3000 entries, 1-30+ blocks, hundreds of restart intervals, long shared prefixes, keys that are prefixes of each other, values/empty values/deletion markers at first, last and block-edge positions, arbitrary 64-bit sequence numbers) are written with the public writer; forward iteration must yield the list exactly, Seek(t) for every key and gap must land on the first entry >= t (or be invalid) and Next must yield the exact suffix, SeekToLast the last entry, Get every written key and no gap key. Separately one byte of the finished file is altered (data, bloom, index, footer regions; all positions of small files in the thorough tier): open/iterate/seek/get must fail or show only written tuples, no panic, no process crash (each fault runs first in a child process).",
        "design_ref": "DESIGN.md section 5, C11",
        "note": "Trusted: the harness's row model and sort.Search. Corruption = exactly one byte XORed; truncation/multi-byte damage not covered. A non-terminating read of an altered file is counted, not judged. Native go fuzzing is not wired in.",
        "technique": "round-trip model check, exhaustive/sampled seek oracle, single-byte fault injection with child-process crash guard (rapid)",
    },
    "C20": {
        "text": "Every exported field of config.Config (found by reflection) is assigned values around each documented validity boundary, singly and in combination; an independent table of the documented constraints decides the expectation: an invalid configuration must be rejected by Validate and SaveManifest and leave the target directory tree byte-identical, a valid one must be stored and loaded back field-for-field equal. Every truncation length of each generated stored manifest (exhaustive per manifest) and JSON manifests with missing/ill-typed/invalid members must fail to load or load exactly the stored values. At engine level NewEngineFacade on a valid non-default manifest must place WAL and SST files only in the stored directories, switch the memtable at the stored size and keep the manifest bytes unchanged over open/write/close/reopen; on a directory with data and a damaged manifest it must return an error and change no file.",
        "design_ref": "DESIGN.md section 5, C20",
        "note": "Trusted: the hand-written constraint table (transcribed from Validate's messages), encoding/json for well-formedness of generated documents, tmpfs. Critical threshold equal to warning threshold is treated as undecided by the documentation. Strings are valid UTF-8. Engine cases use small sane configurations and wait for the background flush after every write.",
        "technique": "table-oracle property testing (rapid) + save/load round trip + exhaustive truncation enumeration + directory-snapshot invariant",
    },
    "C12": {
        "text": "Metamorphic, by search, at three levels. Component: generated SSTable directories (1-6 overlapping level-0 files with controlled recency, 0-2 deeper levels, overwrites and deletion markers placed across files) are compacted by the real coordinator (TriggerCompaction repeated, CompactRange with drawn bounds; fresh tombstone tracker = state after restart, or a tracker knowing a drawn subset); the newest-wins live view known from generation must equal the view an engine opened on the directory reads before and after; outputs strictly ascending. Engine: C01-style workloads with compactions, flushes, 'retire' (flushed log files dropped through the repository's retention code) and reopen; every key after every step and a full scan after each reopen equal the map model. Crash: the same in a child killed at compaction.*/sstable.* hook sites; the reopened state must be the exact pre-crash state.",
        "design_ref": "DESIGN.md section 5, C12",
        "note": "Recency of generated files follows the engine's rule (deeper level older; within level 0 higher sequence/timestamp newer); files inside deeper levels do not overlap. Tombstone retention by wall-clock age (24 h) is out of reach. Crash = process death at hook sites. Trusted: generation-time view, map model.",
        "technique": "metamorphic live-view equality over generated SSTable sets and engine workloads; crash points inside compaction (rapid)",
    },
    "C18": {
        "text": "Generated put/delete histories with arbitrary (non-monotone, repeated, 0, 2^64-1) sequence numbers run against one MemTable and against a MemTablePool; after every step the whole state is compared with a multi-version-map model: Get returns the highest sequence number (among equal numbers the latest insertion), iterators yield every version key-ascending/sequence-descending, Seek lands on the first entry at or after the target, immutable tables stay frozen, pool Get answers from the newest table holding the key. Concurrent part: one writer and 1-8 readers on the real structure; every reader observation must contain everything completed before it began and only inserted entries, sorted; any race report of the Go race detector inside pkg/memtable is a violation.",
        "design_ref": "DESIGN.md section 5, C18",
        "note": "Trusted: the Go race detector, the sequentially consistent progress counter, the model. Schedules are sampled, not enumerated; a concurrent replay re-executes the workload up to 60 times. The tie clause (latest insertion wins among equal key and sequence) is grounded in ApplyBatch, WAL replay and flushMemTable.",
        "technique": "model-based property testing + invariants over recorded concurrent observations under the race detector (rapid)",
    },
}

#!/usr/bin/env python3
import json,sys,base64
for fn in sys.argv[1:]:
    d=json.load(open(fn))
    print(fn); print(' ', d.get('mismatch'))
    p=d['program']
    print('  cfg',p['cfg'],'keys',[base64.b64decode(k)[:12] for k in p['keys']])
    for i,s in enumerate(p['steps']): print('   ',i,json.dumps(s))

# Per-property driver configuration: tier budgets (shards x rounds x cases per
# process), build options, evidence level. Rules and classification live next
# to the Go code of each check and arrive through the partial files.
# Keys: level, quick/thorough {shards, rounds, checks, timeout[s], env{}}, optional: race (build with -race),
# run (regexp for -test.run, default ^TestProp), env{}, count_check (default True: evaluations >= checks per process),
# shrinktime, ulimit_v_kb, assumptions[], exhaustive_subspace.
CHECKS = {
    "C01": {
        "level": "exploration",
        "quick": {"shards": 16, "rounds": 1, "checks": 400, "timeout": 900},
        "thorough": {"shards": 16, "rounds": 8, "checks": 500, "timeout": 3000},
        "assumptions": [
            "single client; the background flush goroutine is quiesced between steps so a case is a function of its program",
            "process-level semantics only (no power-loss model)",
        ],
    },
    "C02": {
        "level": "fault_enumeration",
        "quick": {"shards": 16, "rounds": 1, "checks": 100, "timeout": 900},
        "thorough": {"shards": 16, "rounds": 4, "checks": 500, "timeout": 3000},
        "assumptions": [],
    },
    "C03": {
        "level": "fault_enumeration",
        "quick": {"shards": 16, "rounds": 1, "checks": 100, "timeout": 900},
        "thorough": {"shards": 16, "rounds": 4, "checks": 500, "timeout": 3000},
        "assumptions": [],
    },
    "C04": {
        "level": "exploration",
        "quick": {"shards": 16, "rounds": 1, "checks": 100, "timeout": 900},
        "thorough": {"shards": 16, "rounds": 4, "checks": 500, "timeout": 3000},
        "assumptions": [],
    },
    "C05": {
        "level": "exploration",
        "quick": {"shards": 16, "rounds": 1, "checks": 100, "timeout": 900},
        "thorough": {"shards": 16, "rounds": 4, "checks": 500, "timeout": 3000},
        "assumptions": [],
    },
    "C06": {
        "level": "exploration",
        "quick": {"shards": 16, "rounds": 1, "checks": 100, "timeout": 900},
        "thorough": {"shards": 16, "rounds": 4, "checks": 500, "timeout": 3000},
        "assumptions": [],
    },
    "C07": {
        "level": "exploration", "race": True,
        "quick": {"shards": 16, "rounds": 1, "checks": 100, "timeout": 900},
        "thorough": {"shards": 16, "rounds": 4, "checks": 500, "timeout": 3000},
        "assumptions": [],
    },
    "C08": {
        "level": "exploration",
        "quick": {"shards": 16, "rounds": 1, "checks": 100, "timeout": 900},
        "thorough": {"shards": 16, "rounds": 4, "checks": 500, "timeout": 3000},
        "assumptions": [],
    },
    "C09": {
        "level": "exploration",
        "quick": {"shards": 16, "rounds": 1, "checks": 100, "timeout": 900},
        "thorough": {"shards": 16, "rounds": 4, "checks": 500, "timeout": 3000},
        "assumptions": [],
    },
    "C10": {
        "level": "fault_enumeration",
        "quick": {"shards": 16, "rounds": 1, "checks": 100, "timeout": 900},
        "thorough": {"shards": 16, "rounds": 4, "checks": 500, "timeout": 3000},
        "assumptions": [],
    },
    "C11": {
        "level": "exploration",
        "quick": {"shards": 16, "rounds": 1, "checks": 100, "timeout": 900},
        "thorough": {"shards": 16, "rounds": 4, "checks": 500, "timeout": 3000},
        "assumptions": [],
    },
    "C12": {
        "level": "exploration",
        "quick": {"shards": 16, "rounds": 1, "checks": 100, "timeout": 900},
        "thorough": {"shards": 16, "rounds": 4, "checks": 500, "timeout": 3000},
        "assumptions": [],
    },
    "C13": {
        "level": "exploration",
        "quick": {"shards": 16, "rounds": 1, "checks": 100, "timeout": 900},
        "thorough": {"shards": 16, "rounds": 4, "checks": 500, "timeout": 3000},
        "assumptions": [],
    },
    "C14": {
        "level": "exploration",
        "quick": {"shards": 16, "rounds": 1, "checks": 100, "timeout": 900},
        "thorough": {"shards": 16, "rounds": 4, "checks": 500, "timeout": 3000},
        "assumptions": [],
    },
    "C15": {
        "level": "exploration",
        "quick": {"shards": 16, "rounds": 1, "checks": 100, "timeout": 900},
        "thorough": {"shards": 16, "rounds": 4, "checks": 500, "timeout": 3000},
        "assumptions": [],
    },
    "C16": {
        "level": "exploration",
        "quick": {"shards": 16, "rounds": 1, "checks": 100, "timeout": 900},
        "thorough": {"shards": 16, "rounds": 4, "checks": 500, "timeout": 3000},
        "assumptions": [],
    },
    "C17": {
        "level": "exploration",
        "quick": {"shards": 16, "rounds": 1, "checks": 100, "timeout": 900},
        "thorough": {"shards": 16, "rounds": 4, "checks": 500, "timeout": 3000},
        "assumptions": [],
    },
    "C18": {
        "level": "exploration", "race": True,
        "quick": {"shards": 16, "rounds": 1, "checks": 100, "timeout": 900},
        "thorough": {"shards": 16, "rounds": 4, "checks": 500, "timeout": 3000},
        "assumptions": [],
    },
    "C19": {
        "level": "exploration",
        "quick": {"shards": 16, "rounds": 1, "checks": 100, "timeout": 900},
        "thorough": {"shards": 16, "rounds": 4, "checks": 500, "timeout": 3000},
        "assumptions": [],
    },
    "C20": {
        "level": "exploration",
        "quick": {"shards": 16, "rounds": 1, "checks": 100, "timeout": 900},
        "thorough": {"shards": 16, "rounds": 4, "checks": 500, "timeout": 3000},
        "assumptions": [],
    },
}

# Per-property driver configuration: tier budgets (shards x rounds x cases per
# process), build options, evidence level. Rules and classification live next
# to the Go code of each check and arrive through the partial files.
# Keys: level, quick/thorough {shards, rounds, checks, timeout[s], env{}}, optional: race (build with -race),
# run (regexp for -test.run, default ^TestProp), env{}, count_check (default True: evaluations >= checks per process),
# shrinktime, ulimit_v_kb, assumptions[], exhaustive_subspace.
CHECKS = {
    "C01": {
        "level": "exploration",
        "quick": {"shards": 16, "rounds": 1, "checks": 400, "timeout": 900},
        "thorough": {"shards": 16, "rounds": 8, "checks": 500, "timeout": 3000},
        "assumptions": [
            "single client; the background flush goroutine is quiesced between steps so a case is a function of its program",
            "process-level semantics only (no power-loss model)",
        ],
    },
    "C02": {
        "level": "fault_enumeration",
        "quick": {"shards": 16, "rounds": 1, "checks": 500, "timeout": 900},
        "thorough": {"shards": 16, "rounds": 4, "checks": 1500, "timeout": 3000, "env": {"VERIF_EXH_PROGRAMS": "10"}},
        "exhaustive_subspace": "TestPropExhaustive: every (hook site, n-th hit) crash point of each generated single-round program of 3-15 steps (counters exhaustive_programs / exhaustive_crash_points); the sampled part (TestProp) is not exhaustive",
        "assumptions": [
            "a crash is process death at a named hook site (os.Exit in a child, no deferred functions, no buffered-writer flush): bytes handed to write(2) survive, user-space buffers do not; fsync and torn sectors are outside this model",
            "database directories live on tmpfs",
            "the background flush goroutine is quiesced between steps, so hook hit counts of a program are reproducible",
        ],
    },
    "C03": {
        "level": "fault_enumeration",
        "quick": {"shards": 16, "rounds": 1, "checks": 100, "timeout": 900},
        "thorough": {"shards": 16, "rounds": 4, "checks": 500, "timeout": 3000},
        "assumptions": [],
    },
    "C04": {
        "level": "exploration",
        "quick": {"shards": 16, "rounds": 1, "checks": 100, "timeout": 900},
        "thorough": {"shards": 16, "rounds": 4, "checks": 500, "timeout": 3000},
        "assumptions": [],
    },
    "C05": {
        "level": "exploration",
        "quick": {"shards": 16, "rounds": 1, "checks": 100, "timeout": 900},
        "thorough": {"shards": 16, "rounds": 4, "checks": 500, "timeout": 3000},
        "assumptions": [],
    },
    "C06": {
        "level": "exploration",
        "quick": {"shards": 16, "rounds": 1, "checks": 100, "timeout": 900},
        "thorough": {"shards": 16, "rounds": 4, "checks": 500, "timeout": 3000},
        "assumptions": [],
    },
    "C07": {
        "level": "exploration", "race": True,
        "quick": {"shards": 16, "rounds": 1, "checks": 100, "timeout": 900},
        "thorough": {"shards": 16, "rounds": 4, "checks": 500, "timeout": 3000},
        "assumptions": [],
    },
    "C08": {
        "level": "exploration",
        "quick": {"shards": 16, "rounds": 1, "checks": 100, "timeout": 900},
        "thorough": {"shards": 16, "rounds": 4, "checks": 500, "timeout": 3000},
        "assumptions": [],
    },
    "C09": {
        "level": "exploration",
        "quick": {"shards": 16, "rounds": 1, "checks": 2500, "timeout": 900},
        "thorough": {"shards": 16, "rounds": 10, "checks": 3000, "timeout": 3000},
        "assumptions": [
            "log written through the pkg/wal API by one goroutine, no I/O faults, no damage (damage is C10)",
            "rotation hands the sequence counter over (UpdateNextSequence), the intended regime of unique growing numbers",
            "log file names come from the wall clock: a case in which the clock does not advance between two files is abandoned and counted",
        ],
    },
    "C10": {
        "level": "fault_enumeration",
        "quick": {"shards": 16, "rounds": 1, "checks": 100, "timeout": 900},
        "thorough": {"shards": 16, "rounds": 4, "checks": 500, "timeout": 3000},
        "assumptions": [],
    },
    "C11": {
        "level": "exploration",
        "quick": {"shards": 16, "rounds": 1, "checks": 100, "timeout": 900},
        "thorough": {"shards": 16, "rounds": 4, "checks": 500, "timeout": 3000},
        "assumptions": [],
    },
    "C12": {
        "level": "exploration",
        "quick": {"shards": 16, "rounds": 1, "checks": 100, "timeout": 900},
        "thorough": {"shards": 16, "rounds": 4, "checks": 500, "timeout": 3000},
        "assumptions": [],
    },
    "C13": {
        "level": "exploration",
        "quick": {"shards": 16, "rounds": 1, "checks": 100, "timeout": 900},
        "thorough": {"shards": 16, "rounds": 4, "checks": 500, "timeout": 3000},
        "assumptions": [],
    },
    "C14": {
        "level": "exploration",
        "quick": {"shards": 16, "rounds": 1, "checks": 100, "timeout": 900},
        "thorough": {"shards": 16, "rounds": 4, "checks": 500, "timeout": 3000},
        "assumptions": [],
    },
    "C15": {
        "level": "exploration",
        "quick": {"shards": 16, "rounds": 1, "checks": 100, "timeout": 900},
        "thorough": {"shards": 16, "rounds": 4, "checks": 500, "timeout": 3000},
        "assumptions": [],
    },
    "C16": {
        "level": "exploration",
        "quick": {"shards": 16, "rounds": 1, "checks": 100, "timeout": 900},
        "thorough": {"shards": 16, "rounds": 4, "checks": 500, "timeout": 3000},
        "assumptions": [],
    },
    "C17": {
        "level": "exploration",
        "quick": {"shards": 16, "rounds": 1, "checks": 100, "timeout": 900},
        "thorough": {"shards": 16, "rounds": 4, "checks": 500, "timeout": 3000},
        "assumptions": [],
    },
    "C18": {
        "level": "exploration", "race": True,
        "quick": {"shards": 16, "rounds": 1, "checks": 100, "timeout": 900},
        "thorough": {"shards": 16, "rounds": 4, "checks": 500, "timeout": 3000},
        "assumptions": [],
    },
    "C19": {
        "level": "exploration",
        "quick": {"shards": 16, "rounds": 1, "checks": 100, "timeout": 900},
        "thorough": {"shards": 16, "rounds": 4, "checks": 500, "timeout": 3000},
        "assumptions": [],
    },
    "C20": {
        "level": "exploration",
        "quick": {"shards": 16, "rounds": 1, "checks": 100, "timeout": 900},
        "thorough": {"shards": 16, "rounds": 4, "checks": 500, "timeout": 3000},
        "assumptions": [],
    },
}

# Per-property driver configuration: tier budgets (shards x rounds x cases per
# process), build options, evidence level. Rules and classification live next
# to the Go code of each check and arrive through the partial files.
CHECKS = {
    "C01": {
        "level": "exploration",
        "quick": {"shards": 16, "rounds": 1, "checks": 400, "timeout": 900},
        "thorough": {"shards": 16, "rounds": 6, "checks": 500, "timeout": 3000},
        "assumptions": [
            "single client; the background flush goroutine is quiesced between steps so a case is a function of its program",
            "process-level semantics only (no power-loss model)",
        ],
    },
}

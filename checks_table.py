# Per-property driver configuration: tier budgets (shards x rounds x cases per
# process), build options, evidence level. Rules and classification live next
# to the Go code of each check and arrive through the partial files.
# Keys: level, quick/thorough {shards, rounds, checks, timeout[s], env{}}, optional: race (build with -race),
# run (regexp for -test.run, default ^TestProp), env{}, count_check (default True: evaluations >= checks per process),
# shrinktime, ulimit_v_kb, assumptions[], exhaustive_subspace.
CHECKS = {
    "C01": {
        "level": "exploration",
        "quick": {"shards": 16, "rounds": 1, "checks": 400, "timeout": 900},
        "thorough": {"shards": 16, "rounds": 8, "checks": 500, "timeout": 3000},
        "assumptions": [
            "single client; in 3 of 4 programs the background flush goroutine is quiesced between steps so that a case is a function of its program; in 1 of 4 it is not awaited and the verdict is schedule dependent",
            "the retire step (log files dropped through WAL.ManageRetention) is harness maintenance, not an operation of the property",
            "process-level semantics only (no power-loss model)",
        ],
    },
    "C02": {
        "level": "fault_enumeration",
        "quick": {"shards": 16, "rounds": 1, "checks": 500, "timeout": 900},
        "thorough": {"shards": 16, "rounds": 4, "checks": 1500, "timeout": 3000, "env": {"VERIF_EXH_PROGRAMS": "10"}},
        "exhaustive_subspace": "TestPropExhaustive: every (hook site, n-th hit) crash point of each generated single-round program of 3-15 steps (counters exhaustive_programs / exhaustive_crash_points); the sampled part (TestProp) is not exhaustive",
        "assumptions": [
            "a crash is process death at a named hook site (os.Exit in a child, no deferred functions, no buffered-writer flush): bytes handed to write(2) survive, user-space buffers do not; fsync and torn sectors are outside this model",
            "database directories live on tmpfs",
            "the background flush goroutine is quiesced between steps, so hook hit counts of a program are reproducible",
            "concurrent variant (TestPropConcurrentCrash): interleavings are sampled, not enumerated; the crash point is the n-th hit of a site in a run whose hit counts vary, so a replay re-executes the workload up to 12 times; real-time order between clients is what one O_APPEND file of write(2) lines shows (issue line before the call, ack line after it)",
        ],
    },
    "C03": {
        "level": "fault_enumeration",
        "quick": {"shards": 16, "rounds": 1, "checks": 40, "timeout": 900},
        "thorough": {"shards": 16, "rounds": 4, "checks": 300, "timeout": 3000},
        "exhaustive_subspace": "torn sub-check, thorough tier: every byte offset inside the last transaction's log range when the range is <= 400 bytes; everything else is sampled",
        "assumptions": [
            "shared-transaction sub-check: a Put/Delete on a transaction that returned nil counts as a write of that transaction, whichever goroutine issued it; interleavings are sampled (replay re-executes up to 30 times)",
            "buffer sub-check: a commit that reports an error is a failed transaction (no trace expected), not a violation by itself",
            "crash = process death at a hook site (child os.Exit); torn final write = truncation of the newest log file inside the last transaction's byte range",
            "concurrent visibility is decided per recorded execution; schedules are perturbed by a generated yield plan at batch/commit hook sites, not enumerated",
            "commit failures are provoked with a process file-size limit (RLIMIT_FSIZE, EFBIG after a partial write, like a full disk); other I/O errors (EIO, failing fsync, failing rename) are not injected",
            "a failed plain Put/Delete (outside a transaction) may or may not have taken effect: the property speaks about failed transactions only",
        ],
    },
    "C04": {
        "level": "exploration",
        "quick": {"shards": 16, "rounds": 1, "checks": 400, "timeout": 900},
        "thorough": {"shards": 16, "rounds": 6, "checks": 1500, "timeout": 3000},
        "assumptions": [
            "goroutine interleavings are sampled, not enumerated: each recorded execution is checked; schedules are perturbed by think times and a generated yield/sleep plan at the begin/commit/batch hook sites and cannot be replayed",
            "each client goroutine holds at most one transaction at a time (documented limitation of the single reader-writer lock)",
            "only transactions take part; plain Put/Get/Delete outside transactions are excluded, as the property says",
            "a commit that reports an error is modelled as not applied (none occurred)",
        ],
    },
    "C05": {
        "level": "exploration",
        "quick": {"shards": 16, "rounds": 1, "checks": 350, "timeout": 900},
        "thorough": {"shards": 16, "rounds": 8, "checks": 500, "timeout": 3000},
        "assumptions": [
            "the build phase is single-client with the background flush quiesced between steps; the concurrent phase samples schedules",
            "iterators are read the way KevoService.Scan reads them (SeekToFirst/Seek, Valid, IsTombstone skip, Next)",
            "non-nil empty bounds are not generated (the service cannot produce them; no document says what they mean)",
            "'retire' uses the repository's own WAL retention code (ManageRetention) after everything was flushed",
        ],
    },
    "C06": {
        "level": "exploration",
        "quick": {"shards": 16, "rounds": 1, "checks": 60, "timeout": 900},
        "thorough": {"shards": 16, "rounds": 3, "checks": 150, "timeout": 3000},
        "assumptions": [
            "goroutine interleavings are sampled, not enumerated: each recorded execution of the real engine is checked; schedules are perturbed by a generated yield/sleep plan at the verifhook sites and cannot be replayed",
            "a write that returned an error is modelled as having no effect; the only error path reachable without I/O faults is retry exhaustion on ErrWALRotating (unreachable since rotation runs under the engine lock)",
            "the reads after close and reopen assume a clean Close after the background flush went idle; database directories live on tmpfs",
        ],
    },
    "C07": {
        "level": "exploration", "race": True,
        # every case runs in its own child process (race build, 0.3-2 s each)
        "quick": {"shards": 16, "rounds": 1, "checks": 20, "timeout": 900},
        "thorough": {"shards": 16, "rounds": 4, "checks": 60, "timeout": 3000},
        "shrinktime": "40s",
        "assumptions": [
            "a data race is decided per execution by the Go race detector (happens-before); goroutine schedules are perturbed by a generated yield plan, not enumerated",
            "every call returns = returns within 30 s (case: 120 s), at least 1000x the normal latency on this machine",
            "all callers are joined before Close; Close runs while the engine's own background goroutines may still be active",
            "sstable.BlockCache and compaction.DefaultFileTracker are not reachable concurrently through the engine facade; they are exercised through component-level extras (shared sstable.Reader.Get, public file-tracker entry points of a second coordinator)",
        ],
    },
    "C08": {
        "level": "exploration",
        "quick": {"shards": 16, "rounds": 1, "checks": 150, "timeout": 900},
        "thorough": {"shards": 16, "rounds": 6, "checks": 500, "timeout": 3000},
        "assumptions": [
            "one seq case in six runs a window of steps under a process file-size limit (RLIMIT_FSIZE; synchronous logging, single-record writes only): a write that fails there is not acknowledged and nothing is expected of it, the history goes on; other I/O errors are not injected",
            "single client, background flush quiesced between steps",
            "strict increase across a crash is demanded only under SyncImmediate; crash = process death at hook sites",
        ],
    },
    "C09": {
        "level": "exploration",
        "fuzz": [{"target": "FuzzProp", "seconds": 120}],
        "quick": {"shards": 16, "rounds": 1, "checks": 2500, "timeout": 900},
        "thorough": {"shards": 16, "rounds": 7, "checks": 3000, "timeout": 3000},
        "assumptions": [
            "log written through the pkg/wal API by one goroutine, no I/O faults, no damage (damage is C10)",
            "rotation hands the sequence counter over (UpdateNextSequence), the intended regime of unique growing numbers",
            "log file names come from the wall clock: a case in which the clock does not advance between two files is abandoned and counted",
        ],
    },
    "C10": {
        "level": "fault_enumeration",
        "quick": {"shards": 16, "rounds": 1, "checks": 2000, "timeout": 900},
        "thorough": {"shards": 16, "rounds": 8, "checks": 2500, "timeout": 3000},
        "exhaustive_subspace": "per generated log whose newest file is <= 3 KiB (thorough tier, 6 logs per process): every truncation offset and every byte position x {one bit flip, 0x00, 0xFF, +1}, judged at replay level (L1)",
        "assumptions": [
            "damage model: one fault (truncation or one replaced byte) on the newest log file of a cleanly written log; older files undamaged",
            "the damaged log is written through pkg/wal, the database is then opened on it with engine.NewEngineFacade (memtable 32 MiB, so recovery does not flush)",
            "replay is judged by the SET of entries it delivers (property: 'set of entries delivered by replay vs. entries appended'); order and duplicates are only counted",
            "batch atomicity under a cut inside a batch is C03's statement, not judged here",
        ],
    },
    "C11": {
        "level": "exploration",
        "fuzz": [{"target": "FuzzRoundTrip", "seconds": 90}, {"target": "FuzzCorrupt", "seconds": 90}],
        "quick": {"shards": 16, "rounds": 1, "checks": 600, "timeout": 900},
        "thorough": {"shards": 16, "rounds": 4, "checks": 1000, "timeout": 3000},
        "assumptions": [
            "keys are non-empty and at most 65535 bytes (16-bit key length of the block format); values up to 1.5 MiB",
            "corruption = exactly one byte of the finished file XORed with a non-zero mask; a non-terminating read is counted, not judged",
        ],
    },
    "C12": {
        "level": "exploration",
        "quick": {"shards": 16, "rounds": 1, "checks": 250, "timeout": 900},
        "thorough": {"shards": 16, "rounds": 6, "checks": 500, "timeout": 3000},
        "assumptions": [
            "one component case in six runs its compaction calls under a process file-size limit (RLIMIT_FSIZE 64-4096 bytes), so that writing an output fails like on a full disk; afterwards CleanupObsoleteFiles is called as the background worker does after every cycle; other I/O errors are not injected",
            "generated file sets follow the engine's recency rule: deeper level = older, within level 0 higher sequence/timestamp = newer, no overlap inside deeper levels",
            "crash = process death at compaction/sstable hook sites; 'retire' drops flushed logs through WAL.ManageRetention",
        ],
    },
    "C13": {
        "level": "exploration",
        # open findings (see replays/C13): transactions/batches share one sequence number and reach the replica entry by entry
        # (primary_tx); a message applied only in part leaves the replica's cursor behind (noncontig_msg, apply_error)
        "quick": {"shards": 16, "rounds": 1, "checks": 1200, "timeout": 900},
        "thorough": {"shards": 16, "rounds": 6, "checks": 2000, "timeout": 3000},
        "assumptions": [
            "fast path: stream messages are handed to a real replication.Replica through the export shims VerifProcessBatch / VerifProcessBatchAck (no network, no state-machine ticks); unary RPCs go to an in-process client that records ACK/NACK",
            "messages are what the real primary produces: pushes recorded from Primary.StreamWAL's session while the history is written, polls/resends/initial entries through Primary.VerifEntriesFrom; the schedule may cut a message short, drop one inner entry, re-encode payloads with zstd/snappy, duplicate, delay, reorder and drop messages",
            "the primary history is written by one client with the background flush quiesced between steps; a replica process restart is outside this check (C14)",
            "a data moment is the return of WALEntryApplier.Apply; a re-application of the entry applied last (in order, idempotent) is tolerated",
            "loop class (about 1 case in 50): the real replica state machine (Start, 50 ms ticks, error state, backoff with RetryBaseDelay 1 ms / RetryMaxDelay 2 ms, reconnect) against an in-process primary that answers every StreamWAL request from the requested sequence with the real Primary's entries in messages of generated sizes; the history is written before the replica connects",
            "the applier's transient failures are keyed by sequence number (a refused apply has no effect)",
            "loop class: not converging within 20 s is counted, not judged",
            "loop class, slow apply (one case per process in quick, two in thorough): the first Apply of a generated entry stalls 5.5-8 s and is then carried out (never refused, later attempts are prompt); the case ends only after every stalled call has returned plus 300 ms; the stall is a fault magnitude, not a verdict",
            "after a violation has been recorded in a process, shrink candidates of the loop class are executed only up to a cap (verdicts reused by case hash)",
        ],
    },
    "C14": {
        "level": "exploration",
        # every case runs in a child process of its own (real engines + replication managers over loopback TCP, 3-10 s each)
        "quick": {"shards": 16, "rounds": 1, "checks": 2, "timeout": 1500},
        "thorough": {"shards": 16, "rounds": 4, "checks": 5, "timeout": 3000},
        "shrinktime": "60s",
        "assumptions": [
            "replica-side fault model: ONE transient error from the replica's storage on a drawn replicated apply (the replication manager is handed a wrapper of the replica engine whose n-th PutInternal/DeleteInternal call fails once); the replica must still converge within the bound",
            "heartbeat configuration is generated: the default (10 s / 30 s) or 200 ms with a timeout of 0.7-2 s, with or without empty heartbeat messages, so that the idle periods of the trickle / idle_few / aged_burst phases exceed the timeout; huge single values (260 KiB - 1.5 MiB, at most 3 MiB per case) stay below gRPC's default 4 MiB receive limit of the replica, which the repository does not raise",
            "a child process killed by the Go runtime (fatal error / unrecovered panic) whose crashing goroutine has a repository frame is a violation (primary-process-died:* / replica-process-died:*), any other child death is an infrastructure error",
            "hot_phase cases (1 in 5): 2000-4000 back-to-back single-key writes while two replicas open streams during the burst (their own reconnects after every batch with ReplicaConfig.Connection.RetryBaseDelay 20-50 ms instead of the default 1 s, a join, or a stop + restart executed by a second goroutine); a primary write that does not return within 30 s (normal: < 1 ms) is reported as the violation primary-write-blocked:at=<innermost repository frame> with the goroutine dump, although 'replicas must not block the primary' is C15's statement: the blocked write is what stands between the replicas and the primary's state",
            "aged_burst cases (1 in 7) keep a replica connected through 15-22 s of silence (15-16 s in the quick tier) before a burst of 150-400 writes; they use the default 10 s heartbeat while the heartbeat-backlog finding is open (flag idle_heartbeat_backlog)",
            "liveness is decided as bounded time: 60 s + 3 s per phase after the last write (the property's own 'tens of seconds on loopback'); measured convergence on a loaded machine is below 5 s",
            "primary and replicas run in one child process (separate engines, directories and replication managers) and talk over loopback TCP; a replica restart is Manager.Stop + Engine.Close + reopen of the same directory + new manager, not a process kill",
            "the verdict of a case depends on the schedule of the replica's 50 ms / 1 s state machine; a saved case is re-executed up to 3 times by the replay tier",
            "a primary operation or a replica stop that does not return within 60 s / 30 s ends the case unjudged (counted as abandoned:*): a blocked primary is C15's subject",
        ],
    },
    "C15": {
        "level": "exploration",
        # every case runs in a child process of its own (5-40 s each)
        "quick": {"shards": 16, "rounds": 1, "checks": 2, "timeout": 1500},
        "thorough": {"shards": 16, "rounds": 5, "checks": 2, "timeout": 3000},
        "shrinktime": "150s",
        "assumptions": [
            "bounded-time statements: every primary client call returns within 10 s (measured normal: < 10 ms; up to 1.1 s while a healthy replica sits in its 1 s reconnect back-off, see notes), the faulty session leaves GetNodeInfo within 10 x the configured heartbeat timeout after the workload, healthy replicas converge within 60 s + 3 s per 100 steps",
            "flapping_acker: a raw replica living short lives (4-8 goroutines acknowledging back to back with the session id; the CONNECTION is closed abruptly after 1-20 ms while acknowledgements are in flight), repeated until the end of the workload; its sessions must be gone from GetNodeInfo afterwards",
            "reconnect_storm: 1-4 client goroutines register and cancel streams in a tight loop while the heartbeat monitor runs every 1-5 ms (empty heartbeat messages off); a child process killed by the Go runtime whose crashing goroutine has a repository frame is a violation (primary-process-died:<first line>), not an infrastructure error; unsynchronised accesses that the runtime does not turn into a fatal error are not detected (no race-detector build: it would distort the latency bounds and multiply the wall time)",
            "faults are injected at application / TCP-proxy level on loopback: 'cut without FIN' = a user-space proxy that stops reading and forwarding while all sockets stay open; packet loss below TCP is not modelled",
            "clause 2 (dropped from the topology) is judged for replicas that are gone or silent for good (never reads, blackholed, reset, never acknowledges); a slow but live replica is observed only",
            "primary, replicas and fault injectors run in one child process; engines use a 64 MiB memtable so that no log rotation happens WHILE the replication primary runs (rotation is C14's open finding D18)",
            "pre-history cases (about 40 %): the primary's directory lived an earlier lifetime (1-3 rounds of writes + flush = log rotation, clean close, reopen, at most 60 log entries) before the replication primary starts, so its log directory holds older files and the retention pass run from every Acknowledge has work; every healthy replica connects before the first replicated write and has applied the whole pre-history before anything is acknowledged - a replica that still needed a file removed by retention could only be served by a bootstrap, which is outside the property; the quiet-blackhole class gets no pre-history while the stalled_tcp finding is open",
            "the verdict depends on goroutine and network scheduling; a saved case is re-executed 3 times side by side by the replay tier",
        ],
    },
    "C16": {
        "level": "exploration",
        "quick": {"shards": 16, "rounds": 1, "checks": 600, "timeout": 900},
        "thorough": {"shards": 16, "rounds": 8, "checks": 1000, "timeout": 3000},
        "assumptions": [
            "about half of the phases keep a client transaction open (embedded read-only, embedded read-write = downgraded/refused, service handle) across the phase's replicated operations; progress is decided as a bound: every replicated apply, every client call and the read inside the open transaction return within 5 s (normal latency far below 1 ms; after a blocked violation has been recorded in a process, shrink candidates use 1.5 s)",
            "manager cases end with Manager.Stop followed by GetNodeInfo and 3-6 mutator-table calls through the still answering service (the order of cmd/kevo Server.Shutdown); the invariant demanded there is: a node that reports role replica refuses every client mutation, and read_only agrees with what mutations experience; a node that reports another role after Stop may accept writes",
            "the API surface is enumerated at run time by reflection (interfaces.Engine minus Close, interfaces.Transaction, pb.KevoService_ServiceDesc); service handlers are invoked in process through the descriptor's handler functions (no network)",
            "replicated operations are applied by one goroutine through replication.EngineApplier.Apply and the facade's PutInternal/DeleteInternal/ApplyBatchInternal; merge entries are not generated (the engine never writes them)",
            "arguments respect the callers' preconditions: non-empty keys at engine level; mutator-table calls get valid requests (key 1-4096 bytes, at least one operation, a transaction begun with read_only=false) so that the only reason to refuse them is read-only mode",
            "reads made while an apply is in flight are judged against the set of values the key held during that phase (single writer); equality with the model is demanded at the barriers",
            "manager cases use the configuration cmd/kevo builds (Enabled, ForceReadOnly=true) with a 200 ms dial timeout towards an address where nothing listens",
        ],
    },
    "C17": {
        "level": "exploration",
        # every case runs in a child process of its own (1x, or 4x when a begin timed out in the lock queue)
        "quick": {"shards": 16, "rounds": 1, "checks": 260, "timeout": 900},
        "thorough": {"shards": 16, "rounds": 4, "checks": 600, "timeout": 3000},
        "shrinktime": "60s",
        "assumptions": [
            "two finishers are queued behind a read of the same transaction that is delayed 2-30 ms inside the pass-through backend's Get; which of them reaches the transaction mutex first is observed, not controlled",
            "about one case per process (a residue of a 64-bit draw, ~1/278) is a long-lived server: 1000-1500 client lives against one service instance with a 10 ms idle limit, choices from a PRNG seeded by the case",
            "registry and service calls of the driver go through tracking proxies; a call outstanding for 5 s of heartbeat time is the verdict registry_call_blocked:<call>",
            "a slow commit is produced by a 2-30 ms sleep inside the pass-through backend's ApplyBatch; the second finisher or cleanup starts only after the first has entered the storage, so the first always wins",
            "aged mode: idle limit 20-30 ms, lifetime limit 10x that, thresholds 75/90 or 50/75; every sweep is preceded by idle + 5 ms of sleep, age bands are reached by waiting and only counted, not judged",
            "a service call whose request context is already cancelled or expired is not judged by its result, only by its aftermath (transaction ended as a whole or still reachable, lock released, state consistent with what was reported)",
            "storage faults are injected only at ApplyBatch of a commit, through a pass-through backend over engine.VerifStorage()",
            "liveness is decided with a bound: a begin that nothing legitimately stands in the way of must return within 5 s (normal: microseconds); the bound drops to 1 s only after a still-active transaction has been shown to be unreachable for every client, registry entry and goroutine",
            "lock-aware generator: a begin is only awaited when it must succeed in every interleaving of sync.RWMutex (queued readers behind a possibly queued writer are left alone until the holders finish); which queued writer goes first is observed, not predicted",
            "each client holds at most one transaction; stale cleanup is exercised either with every registered transaction certainly past its limit (the driver sleeps limit + 5 ms first) or with limits of 1 h / 1 min that cannot expire during a case",
            "service handlers are called directly (no network); connection ids are the context value \"peer\" as read by Registry.Begin",
        ],
    },
    "C18": {
        "level": "exploration", "race": True,
        # three TestProp functions (table, pool, concurrent) x checks cases per process
        "quick": {"shards": 16, "rounds": 1, "checks": 600, "timeout": 900},
        "thorough": {"shards": 16, "rounds": 6, "checks": 800, "timeout": 3000},
        "assumptions": [
            "single writer (the memtable's documented contract); SetImmutable is called by the writer between writes, as MemTablePool does under its lock",
            "goroutine interleavings are not controlled: the concurrent part checks recorded observations of real executions and cannot replay a schedule",
            "non-empty keys (engine-level precondition)",
        ],
    },
    "C19": {
        "level": "exploration",
        # open findings: TxGet with an out-of-limit key drops the handle without rollback (D14);
        # Get/TxGet report every engine error as found=false
        "quick": {"shards": 16, "rounds": 2, "checks": 250, "timeout": 900},
        "thorough": {"shards": 16, "rounds": 10, "checks": 400, "timeout": 3000},
        "assumptions": [
            "one client issues one request at a time; requests that wait for the process-wide transaction lock by design are never issued (the lock state is probed with TryLock before every request)",
            "the embedded answer is taken from a twin engine (same configuration, same operations through the embedded API); the background flush is quiesced on both engines after every write",
            "requests whose message would exceed the transport's default 4 MiB cap (10 MiB values) are passed to the server methods directly, after a protobuf encode/decode round trip",
            "scan requests that combine a range with a prefix/suffix have no documented meaning and are only checked for order, liveness, limit and the filters given",
        ],
    },
    "C20": {
        "level": "exploration",
        "quick": {"shards": 16, "rounds": 1, "checks": 600, "timeout": 900},
        "thorough": {"shards": 16, "rounds": 6, "checks": 1000, "timeout": 3000},
        "exhaustive_subspace": "all truncation lengths (every strict prefix 0..len-1, plus the full length) of each generated stored manifest, at config.LoadConfigFromManifest and (engine sub-check, all_trunc cases) at engine.NewEngineFacade",
        "assumptions": [
            "validity is decided by an independent table transcribed from the error messages of config.Config.Validate; fields without a message are unconstrained",
            "string fields hold valid UTF-8 (JSON cannot carry other byte strings)",
            "engine cases: the memtable size accounting counts at least the payload bytes and at most 8x the payload of a single entry",
            "engine cases wait for the background flush after every write (no wall-clock bound is a verdict)",
        ],
    },
}

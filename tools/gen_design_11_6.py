#!/usr/bin/env python3
"""Rewrites DESIGN.md section 11.6 from tools/design_11_6_head.md + tools/seeded_table.py."""
import subprocess, re, os
ROOT = os.path.dirname(os.path.dirname(os.path.abspath(__file__)))
head = open(os.path.join(ROOT, "tools", "design_11_6_head.md")).read()
table = subprocess.run(["python3", os.path.join(ROOT, "tools", "seeded_table.py")], capture_output=True, text=True).stdout
table = "\n".join(l for l in table.splitlines() if not l.startswith("WARNING conda"))
p = os.path.join(ROOT, "DESIGN.md")
s = open(p).read()
i = s.find("### 11.6 ")
if i >= 0:
    s = s[:i].rstrip() + "\n\n"
else:
    s = s.rstrip() + "\n\n"
s += head + "Results (regenerate with `python3 tools/gen_design_11_6.py`):\n\n" + table + "\n"
open(p, "w").write(s)
print("section 11.6 written,", len(table.splitlines()), "table lines")

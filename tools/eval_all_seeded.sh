#!/bin/bash
# evaluates every seed directory under /tmp/seedout that has no /verif/seeded/<P>-<n> yet
cd /verif
for d in /tmp/seedout/*/*/; do
  P=$(basename $(dirname $d)); N=$(basename $d); NAME=$P-$N
  [ -f $d/patch.diff ] && [ -f $d/meta.json ] && [ -f $d/demo_test.go ] || continue
  [ -f seeded/$NAME/meta.json ] && continue
  echo "=== $NAME $(date +%H:%M:%S)" >> out/eval_seeded.log
  tools/eval_seeded.py $d $NAME >> out/eval_seeded.log 2>&1
done
echo "=== done $(date +%H:%M:%S)" >> out/eval_seeded.log

#!/bin/bash
# evaluates every finished seed directory under /tmp/seedout (round 1, names
# <P>-1/-2) and /tmp/seedout2 (round 2, names <P>-3/-4) that has no
# /verif/seeded/<name>/meta.json yet
cd /verif
for root in /tmp/seedout:0 /tmp/seedout2:2 /tmp/seedout3:4 /tmp/seedout4:6 /tmp/seedout5:8 /tmp/seedout6:10 /tmp/seedout7:12 /tmp/seedout8:R8 /tmp/seedout9:R9; do
  R=${root%%:*}; OFF=${root##*:}
  for d in $R/*/*/; do
    [ -d "$d" ] || continue
    P=$(basename $(dirname $d)); N=$(basename $d)
    O=$OFF
    if [ "$OFF" = R8 ]; then case $P in C06|C19|C20) O=10;; *) O=8;; esac; fi
    if [ "$OFF" = R9 ]; then case $P in C13|C14|C15|C16|C17) O=9;; *) O=12;; esac; fi
    NAME=$P-$((N+O))
    [ -f $d/patch.diff ] && [ -f $d/meta.json ] && [ -f $d/demo_test.go ] || continue
    [ -f seeded/$NAME/meta.json ] && continue
    echo "=== $NAME $(date +%H:%M:%S)" >> out/eval_seeded.log
    tools/eval_seeded.py $d $NAME >> out/eval_seeded.log 2>&1
  done
done
echo "=== done $(date +%H:%M:%S)" >> out/eval_seeded.log

#!/usr/bin/env python3
"""tools/kf.py fixed <ID> <PROP> <commit> <what> [repro]   |  tools/kf.py repro <ID> <path>"""
import json,sys
p='/verif/known_findings.json'
k=json.load(open(p))
cmd=sys.argv[1]
if cmd=='fixed':
    _,_,id,prop,commit,what=sys.argv[:6]
    repro=sys.argv[6] if len(sys.argv)>6 else None
    k['findings']=[f for f in k['findings'] if f['id']!=id]
    e={"id":id,"property":prop,"status":"fixed","commit":commit,"what":what,"fixed_line":f"fixed: property={prop} {commit} {what}"}
    if repro: e['repro']=repro
    k['findings'].append(e)
elif cmd=='repro':
    for f in k['findings']:
        if f['id']==sys.argv[2]: f['repro']=sys.argv[3]
json.dump(k,open(p,'w'),indent=1)

#!/usr/bin/env python3
"""Evaluates one independently seeded change against the framework.

  tools/eval_seeded.py <seed_dir> <name> [--checks C01,C05] [--tier quick]

<seed_dir> holds patch.diff, demo_test.go, meta.json as written by a seeding
sub-agent (which saw only the property text and a scratch worktree). Steps, all
in a scratch worktree of /repo (never /repo itself):
  1. apply the patch, build;
  2. confirm the demonstration FAILS with the change and PASSES without it;
  3. confirm the pinned suite's stable tests still pass with the change;
  4. run the named checks (default: the property's own check) against the
     worktree with tools/run_against.sh and record exit codes and signatures;
  5. store everything under /verif/seeded/<name>/ (patch.diff, demo_test.go,
     meta.json with the results).
"""
import argparse, json, os, re, shutil, subprocess, sys, tempfile, time

ROOT = os.path.dirname(os.path.dirname(os.path.abspath(__file__)))


def sh(cmd, cwd=None, timeout=3600, env=None):
    e = dict(os.environ)
    e.update({"GOFLAGS": "-mod=mod", "GOPROXY": "off"})
    if env:
        e.update(env)
    r = subprocess.run(cmd, shell=True, cwd=cwd, capture_output=True, text=True, timeout=timeout, env=e)
    return r.returncode, r.stdout + r.stderr


def main():
    ap = argparse.ArgumentParser()
    ap.add_argument("seed_dir")
    ap.add_argument("name")
    ap.add_argument("--checks", default="")
    ap.add_argument("--tier", default="quick")
    ap.add_argument("--keep", action="store_true")
    a = ap.parse_args()
    sd = os.path.abspath(a.seed_dir)
    meta = json.load(open(os.path.join(sd, "meta.json")))
    prop = meta["property"]
    checks = [c for c in a.checks.split(",") if c] or [prop]
    demo_src = open(os.path.join(sd, "demo_test.go")).read()
    m = re.search(r"((?:pkg|cmd)/[\w/]+?)/?[\s(]", demo_src[:1500]) or re.search(r"((?:pkg|cmd)/[\w/]+)", meta.get("demo_location", ""))
    if not m:
        print("cannot find the demonstration's package directory")
        return 2
    pkgdir = m.group(1).rstrip("/")
    race = "-race" in demo_src[:2500]
    flags = ""
    tm = re.search(r"-run\s+(\S+)", demo_src[:2500])
    runre = tm.group(1).strip("'\"") if tm else "TestSeededDemo"
    wt = tempfile.mkdtemp(prefix="evseed-", dir="/tmp")
    os.rmdir(wt)
    rc, out = sh(f"git -C /repo worktree add -q {wt} HEAD")
    if rc != 0:
        print(out)
        return 2
    res = {"evaluated_at_repo_commit": sh("git -C /repo log --format=%h -1")[1].strip(), "checks": {}}
    try:
        patch = "patch.diff"
        rc, out = sh(f"git apply {sd}/patch.diff", cwd=wt)
        if rc != 0 and os.path.exists(os.path.join(sd, "patch_rebased.diff")):
            # a later fix: commit touched the same lines; the same change re-done by hand on the new HEAD
            patch = "patch_rebased.diff"
            rc, out = sh(f"git apply {sd}/{patch}", cwd=wt)
            res["note"] = "patch.diff no longer applies after a later fix commit; evaluated with patch_rebased.diff (the same change re-done on the new HEAD)"
        if rc != 0:
            print("patch does not apply:", out)
            res["patch_applies"] = False
            return 2
        res["patch_applies"] = True
        rc, out = sh("go build ./...", cwd=wt)
        res["builds"] = rc == 0
        if rc != 0:
            print("does not build:", out[-2000:])
            return 2
        demo_dst = os.path.join(wt, pkgdir, "seeded_demo_eval_test.go")
        shutil.copyfile(os.path.join(sd, "demo_test.go"), demo_dst)
        flags = "-race " if race else ""
        if re.search(r"-tags[ =]verif", demo_src[:3000]) or "//go:build verif" in demo_src[:600]:
            flags += "-tags verif "
        rc_with, out_with = sh(f"go test -vet=off -count=1 {flags}-timeout 10m -run '{runre}' ./{pkgdir}", cwd=wt)
        # without the change
        sh(f"git apply -R {sd}/{patch}", cwd=wt)
        rc_wo, out_wo = sh(f"go test -vet=off -count=1 {flags}-timeout 10m -run '{runre}' ./{pkgdir}", cwd=wt)
        sh(f"git apply {sd}/{patch}", cwd=wt)
        os.remove(demo_dst)
        res["demo_fails_with_change"] = rc_with != 0
        res["demo_passes_without"] = rc_wo == 0
        res["demo_output_with_change"] = out_with[-1500:]
        print(f"demo: with change rc={rc_with}, without rc={rc_wo}")
        # existing tests with the change
        rc1, o1 = sh("go test -vet=off -count=1 -timeout 10m $(go list ./... | grep -v pkg/replication)", cwd=wt)
        if not os.path.exists("/tmp/repl_regex.txt"):
            shutil.copyfile(os.path.join(ROOT, "tools", "repl_regex.txt"), "/tmp/repl_regex.txt")
        rc2, o2 = sh('go test -vet=off -count=1 -timeout 10m -run "$(cat /tmp/repl_regex.txt)" ./pkg/replication', cwd=wt)
        res["existing_tests_pass_with_change"] = rc1 == 0 and rc2 == 0
        if rc1 or rc2:
            print("existing tests FAIL with the change:", (o1 + o2)[-1500:])
        for c in checks:
            t0 = time.time()
            rc, out = sh(f"{ROOT}/tools/run_against.sh {wt} {c} {a.tier} 2>&1", cwd=ROOT, timeout=7200)
            sigs = []
            lines = out.splitlines()
            for i, ln in enumerate(lines):
                if ln.startswith("VIOLATION") and i + 1 < len(lines):
                    sigs.append(lines[i + 1].strip()[:300])
            res["checks"][c] = {"tier": a.tier, "exit": rc, "violations": sum(1 for l in lines if l.startswith("VIOLATION")),
                                "signatures": sigs[:6], "wall_s": round(time.time() - t0, 1),
                                "summary": [l for l in lines if l.startswith("[" + c + "]")][-1:]}
            print(f"check {c}: exit={rc} violations={res['checks'][c]['violations']} {sigs[:2]}")
        res["detected"] = any(v["exit"] == 1 for v in res["checks"].values())
    finally:
        if not a.keep:
            sh(f"git -C /repo worktree remove --force {wt}")
    dst = os.path.join(ROOT, "seeded", a.name)
    os.makedirs(dst, exist_ok=True)
    shutil.copyfile(os.path.join(sd, "patch.diff"), os.path.join(dst, "patch.diff"))
    if os.path.exists(os.path.join(sd, "patch_rebased.diff")):
        shutil.copyfile(os.path.join(sd, "patch_rebased.diff"), os.path.join(dst, "patch_rebased.diff"))
    shutil.copyfile(os.path.join(sd, "demo_test.go"), os.path.join(dst, "demo_test.go"))
    meta_out = {
        "property": prop,
        "breaks": meta.get("summary", ""),
        "needs_to_manifest": meta.get("needs", ""),
        "why_existing_tests_pass": meta.get("why_existing_tests_pass", ""),
        "demonstration": {"file": "demo_test.go", "place_in": pkgdir, "run": f"go test -vet=off -count=1 {flags}-run '{runre}' ./{pkgdir}"},
        "origin": "independent sub-agent given only the property text and a scratch worktree (tools/SEED_BRIEF.md)",
        "what_i_ran": ["git apply patch.diff in a scratch worktree of /repo", "go build ./...",
                       "the demonstration with and without the change", "the pinned suite's stable tests with the change",
                       f"tools/run_against.sh <worktree> {{{','.join(checks)}}} {a.tier}"],
        "results": res,
    }
    json.dump(meta_out, open(os.path.join(dst, "meta.json"), "w"), indent=1)
    print("stored in", dst, "detected =", res.get("detected"))
    return 0


if __name__ == "__main__":
    sys.exit(main())

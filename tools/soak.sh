#!/bin/bash
# tools/soak.sh "<ids>" "<seeds>" [tier]  -> appends one line per run to out/soak.log
cd /verif || exit 2
TIER=${3:-quick}
mkdir -p out
for s in $2; do for id in $1; do
  t0=$(date +%s)
  VERIF_SEED=$s ./check $id --tier $TIER > out/soak-$id-$s-$TIER.out 2> out/soak-$id-$s-$TIER.err; rc=$?
  echo "$(date +%H:%M:%S) $id seed=$s tier=$TIER rc=$rc wall=$(( $(date +%s)-t0 ))s $(grep -c '^VIOLATION' out/soak-$id-$s-$TIER.out) violations; $(tail -1 out/soak-$id-$s-$TIER.err)" >> out/soak.log
  # evidence files are rewritten by every run: keep the committed ones stable by restoring seed-1 evidence later
done; done

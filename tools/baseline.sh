#!/bin/bash
# Fast check of the pinned suite's stable tests (guard OFF): everything except
# pkg/replication in full, pkg/replication restricted to the tests listed in
# BASELINE.json (TestReplicaErrorRecovery never returns on the pinned tree and
# eats the whole 25 min budget there). Prints missing/failed stable tests.
cd /repo || exit 2
python3 - <<'PY' > /tmp/repl_regex.txt
import json
b=json.load(open('/root/.vp/BASELINE.json'))
names=sorted({t.split('::')[1].split('/')[0] for t in b['stable_pass'] if '/pkg/replication::' in t})
print('^('+'|'.join(names)+')$',end='')
PY
OUT=$(mktemp)
go test -vet=off -count=1 -json -timeout 10m $(go list ./... | grep -v pkg/replication) > $OUT 2>/dev/null
go test -vet=off -count=1 -json -timeout 10m -run "$(cat /tmp/repl_regex.txt)" ./pkg/replication >> $OUT 2>/dev/null
python3 - $OUT <<'PY'
import json,sys
passed=set(); failed=set()
for l in open(sys.argv[1]):
    try: e=json.loads(l)
    except: continue
    if e.get('Test') and e.get('Action') in('pass','fail'):
        (passed if e['Action']=='pass' else failed).add(e['Package']+'::'+e['Test'])
b=json.load(open('/root/.vp/BASELINE.json'))
stable=set(b['stable_pass'])
missing=sorted(stable-passed)
print('stable',len(stable),'passed_now',len(passed&stable),'missing',len(missing),'failed',len(failed))
for m in missing[:20]: print('  MISSING',m)
for m in sorted(failed)[:20]: print('  FAILED',m)
sys.exit(1 if missing or failed else 0)
PY
rc=$?; rm -f $OUT; exit $rc

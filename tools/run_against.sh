#!/bin/bash
# Runs one check of this framework against ANOTHER copy of the repository
# (a scratch worktree with a seeded mutant), without touching /repo or /verif.
#   tools/run_against.sh <repo_dir> <ID> [quick|thorough] [extra env assignments...]
# A throw-away copy of /verif (without build output) is made under /dev/shm,
# its harness/go.mod `replace` is pointed at <repo_dir>, the check is run there
# and the copy is removed. Exit code and stdout are those of ./check.
set -u
REPO_DIR=$(readlink -f "$1"); ID=$2; TIER=${3:-quick}
ORIGPWD=$(pwd)
SRC=$(cd "$(dirname "$0")/.." && pwd)
BASE=/dev/shm; [ -d $BASE ] || BASE=${TMPDIR:-/tmp}
ALT=$(mktemp -d "$BASE/verif-alt-XXXXXX")
trap 'rm -rf "$ALT"' EXIT
rsync -a --exclude .git --exclude .build --exclude out --exclude evidence "$SRC/" "$ALT/"
sed -i "s#=> /repo#=> $REPO_DIR#" "$ALT/harness/go.mod"
if [ "$ID" = "--replay" ]; then
  # tools/run_against.sh <repo_dir> --replay <file>
  RF=$(readlink -f "$3")
  cd "$ALT" && ./check --replay "$RF"
  exit $?
fi
cd "$ALT" && ./check "$ID" --tier "$TIER"
rc=$?
if [ -d "$ALT/out/$ID/violations" ]; then
  mkdir -p "$SRC/out/alt/$ID" && cp -r "$ALT/out/$ID/violations/." "$SRC/out/alt/$ID/" 2>/dev/null
fi
exit $rc

#!/usr/bin/env python3
"""Prints a markdown table of /verif/seeded/*/meta.json (for DESIGN.md)."""
import json, glob, os
rows = []
for d in sorted(glob.glob('/verif/seeded/*/')):
    mp = os.path.join(d, 'meta.json')
    if not os.path.exists(mp):
        continue
    m = json.load(open(mp))
    r = m.get('results', {})
    name = os.path.basename(d.rstrip('/'))
    det = []
    for c, v in r.get('checks', {}).items():
        det.append(f"{c}:{'caught' if v.get('exit') == 1 else ('exit ' + str(v.get('exit')))}")
    first = 'missed at first, caught after strengthening' if os.path.exists(os.path.join(d, 'first_evaluation_missed.json')) else ''
    sig = ''
    for c, v in r.get('checks', {}).items():
        if v.get('signatures'):
            sig = v['signatures'][0].split(':')[0][:60] if False else v['signatures'][0][:70]
            break
    brk = m.get('breaks', '')[:110].replace('|', '/').replace('\n', ' ')
    rows.append(f"| {name} | {brk} | {' '.join(det)} | {first} |")
print("| id | change (summary by its author) | quick-tier result | note |\n|---|---|---|---|")
print('\n'.join(rows))

#!/usr/bin/env python3
"""Prints a markdown table of /verif/seeded/*/meta.json (for DESIGN.md 11.6)."""
import json, glob, os, re

# what was strengthened after a first evaluation missed the change
STRENGTHENED = {
    "C01-2": "gen.Value 'fragedge': value sizes at the exact physical-record boundaries of the log (payload == 32768 +-2, remainder == k*32768 +-2)",
    "C02-1": "same generator change as C01-2 (exact fragment boundaries)",
    "C03-2": "C03 crash: commits of hundreds of records (key pools of 150-400 keys, several log buffers), crash point chosen late in the commit",
    "C04-2": "C04: registry reaper (idle/TTL cleanup) running concurrently with the transaction's own calls; wrapped storage backend that pauses inside Get",
    "C08-2": "C08 crash: torn-tail crash plans, no parent open between rounds (recover-then-write in ONE process), concurrent variant",
    "C09-2": "C09/drive: keys and values handed over as adjacent sub-slices of one arena (capacity of the key extends over the value)",
    "C14-1": "C14: 'idle_few' class (replica connected and idle for 3-6 s, then 1-5 last writes)",
    "C14-2": "C14: 'bulk' class (100-entry catch-up messages of 1.1-3.3 MiB, a replica joins or restarts afterwards)",
    "C15-2": "C15: fault class 'nack_sender' (replica that keeps reading and sends NegativeAcknowledge: spam and lossy variants)",
    "C17-1": "C17: injected commit failure (storage backend whose ApplyBatch fails) followed by the lock probe",
    "C17-2": "C17: begin request cancelled exactly when the lock is granted (cancel_at_grant)",
    "C02-3": "C02: buffer-boundary class (sizes computed so that the process dies with the log ending at/within bytes of a record header), Abandon rounds",
    "C02-4": "C02: TestPropConcurrentCrash (writers + flusher, death at a site after a pause, issue/ack log oracle)",
    "C05-3": "C05: 'txsession' queries (one read-write transaction alternating writes to its own keys and scans)",
    "C05-4": "C05: 'session' queries (one re-used iterator, several Seek/Next) and a bulk-load class giving SSTables of >= 3 blocks",
    "C06-3": "C06: resource-limit fault windows (RLIMIT_NOFILE=0 / RLIMIT_FSIZE) during the client phase, so that writes really fail",
    "C08-3": "gen: empty batches / empty transactions (size 0) in generated programs",
    "C11-4": "C11: 'composite' key profile (shared head, varying field in the middle, shared tail); same shape added to the engine-level key generator",
    "C18-4": "C18 (sequential part) and drive.Runner: key/value buffers handed to Put/Delete are overwritten as soon as the call has returned",
    "C20-4": "C20: concurrent sub-check (SaveManifest next to Config.Update toggling a field between valid and invalid); found and fixed D39 on the way",
    "C02-5": "drive: a crash round that closes cleanly is also observed by the writing process itself right before the close",
    "C17-3": "C17: every service call gets a drawn request context (live / cancelled / expired); a dead-context call is judged by its aftermath only",
    "C05-6": "C05: sessions interleave puts of NEW keys by another client between the creation of the iterator and its Seek/Next calls",
    "C08-6": "C08: a window of steps under RLIMIT_FSIZE in the sequential variant (C03's I/O-fault sub-check, with the limit lifted mid-run, catches it too)",
    "C03-5": "C03 buffer sub-check: value sizes whose log payload lands on/around the largest unfragmented record; a commit that fails is judged as a failed transaction (no trace, also after reopen)",
    "C03-6": "C03: sixth sub-check, several goroutines put into ONE transaction while it is committed / rolled back",
    "C11-6": "C11: clause (e), two iterators of one reader used alternately with point lookups in between",
    "C12-6": "C12 component sub-check: compaction calls under a process file-size limit (the compaction fails like on a full disk), followed by the worker's CleanupObsoleteFiles; content must be preserved",
    "C13-5": "C13 loop class: slow-apply fault (an Apply that blocks for 5.5-8 s and then completes), observation continued after convergence",
    "C14-3": "C14: 'aged_burst' class (replica connected through 15-22 s of silence, then 150-400 writes); found and fixed D18d on the way",
    "C14-4": "C14: replica-side transient apply failure (the n-th PutInternal/DeleteInternal of the replica engine fails once, inside a multi-entry catch-up message)",
    "C19-5": "C19: stand-in replication manager with a generated topology; GetNodeInfo compared field by field (empty and nil replica lists included)",
    "C20-5": "C20 assign sub-check: target directory with a longer stale MANIFEST.tmp left by an interrupted save",
    "C20-6": "C20 engine sub-check: databases created by the engine through absolute / relative / ./relative / unclean paths and reopened through the same path",
    "C16-4": "C16: lifecycle moment 'manager stopped, service still answering': a node that still reports role replica must still refuse every client mutation",
    "C16-5": "C16: client transactions (ro, refused rw, service handle) held open across replicated applies, with a progress bound on every apply and call",
    "C14-5": "C14: generated heartbeat configuration (200 ms, timeout 0.7-2 s, with/without empty heartbeats) so that idle periods exceed the timeout before more writes",
    "C14-6": "C14: 'huge value' class (single puts of 260 KiB-1.5 MiB that a late-joining / restarted / lagging replica has to fetch)",
    "C15-6": "C15: 'reconnect_storm' fault class (streams registered and cancelled in a tight loop, heartbeat every 1-5 ms); a primary killed by the Go runtime is a violation",
    "C17-6": "C17: slow commits (delay in the storage wrapper) overlapped by a second finisher / CleanupConnection / sweep / shutdown; every registry and service call bounded through tracking proxies",
    "C02-8": "C02 buffer-boundary class: the straddling record is a fragmented put whose FIRST fragment ends at the 64 KiB buffer boundary (file ends between two fragments), with an earlier cleanly closed lifetime in front",
    "C04-7": "C04: sequential sub-check with SeekToLast inside generated transactions (own write at the greatest key); C05 caught it already",
    "C04-8": "gen: writes that put back exactly the committed bytes (toggle/restore inside a transaction); C04 sequential sub-check (map model) next to the concurrent one",
    "C12-7": "C12 component sub-check: fat and thin files, a low CompactionRatio and MaxMemTables above the number of level-0 files, so that the size-ratio selection runs",
    "C20-8": "C20: sub-check for the Manifest type (NewManifest / Save / LoadManifest / UpdateConfig), which the engine does not use and the check had not exercised",
    "C03-8": "gen: one key longer than a physical log record (32756 / 32769 / 40000 / 65000 bytes) in the 'huge' key shape - the embedded API has no key limit of its own; C09 caught it already",
    "C14-7": "C14: 'hot_phase' class (2000-4000 back-to-back writes while replicas reconnect / join / restart, retry delay 20-50 ms); a primary write that does not return is a violation of its own",
    "C15-7": "C15: 'flapping_acker' fault class (acks from 4-8 goroutines, connection closed abruptly after 1-20 ms, hundreds of lives)",
    "C17-7": "C17: 'race_finish' step (two finishers queued behind a slow read of the same transaction, all pairings, three paths)",
    "C17-8": "C17: rare long-lived-server case (1000-1500 client lives that begin and vanish against one service instance, probes in between)",
    "C11-9": "C11 corruption sub-check: fault region 'blocktail' (the last 28 bytes of a data or index block: restart offsets, restart count, checksum)",
    "C20-9": "C20 manifest sub-check: assignments through the pointer GetConfig() hands out, followed by Save (an invalid configuration must be rejected before anything is written)",
    "C08-10": "C08 crash variant: buffer-boundary cases (shared generator gen.BufEdge: file ending at a record header or exactly between two fragments, recover, write, restart), Abandon rounds",
    "C09-10": "C09: cfg.WALMaxSize drawn (4 KiB / 64 KiB / 256 KiB / default), so files of a case reach or exceed the size limit",
    "C02-11": "gen: the long key's length is drawn around the largest key whose delete / empty-valued put still fits one log record (32747..32758), not only far beyond it",
    "C07-11": "C07: 'shared' transaction steps (a second goroutine works on the SAME transaction object - gets, puts, deletes, scans - while the body runs, joined before the finish)",
    "C12-12": "C12 component sub-check: now and then a level of two digits (10-12) holds files (level numbers are not zero-padded in file names)",
    "C04-12": "drive: after SeekToLast inside a generated transaction, Next must end the iteration (C04 sequential sub-check, C01)",
    "C06-11": "C06: second sub-check 'hot neighbour' (one writer inserting fresh keys directly next to a target key it keeps rewriting, 2-8 readers spinning on the target; single-writer register oracle)",
    "C16-9": "C16: client batches whose entries carry sequence numbers filled in by the client (entries read back from a log / copied from another node)",
    "C13-9": "C13: message fault 'inner_fault_same_span' (a message keeps first entry, last entry and length; inside, an entry is replaced by a copy of its neighbour, two entries are swapped, or only their sequence numbers are)",
    "C13-4": "C13: real Replica state machine with injected transient apply failures (error state -> recovery -> new stream)",
    "C06-13": "C06: every write hands over private key/value buffers that the client overwrites as soon as the call has returned (a client re-using one encode buffer); C18 and C03 had this class already (C18's quick tier catches this patch as well: `pool:get/mutable/unknown-value`), C06 drew a fresh slice per write",
    "C16-10": "C16: node case 'replica_opt_out' (replica-role manager with ForceReadOnly=false; read_only must follow what a client put experiences while the engine flag is set and lifted again); regression replay regress-replica-opt-out-nodeinfo.json",
    "C15-4": "C15: primary with a pre-history (older log files in the directory) so that the ack path's retention pass has work to do",
}

# why a change is (still) not caught
NOT_CAUGHT = {
    "C19-10": "not a violation of C19 as stated: the change sits in the transaction buffer that the embedded transaction and the service's BatchWrite/TxPut share, so service and embedded results stay equal (both wrong; the check counts 'embedded differs from the model' as inconclusive, the embedded semantics being other properties' business). The same slip was seeded for C03 and C01 (C03-3, C01-7) and is caught there; C01 and C03 also catch this patch",
    "C19-12": "not a violation of C19 as stated, like C19-10: the change sits in the transaction buffer (Buffer.Get) that the embedded transaction and the service's TxGet share, so the service keeps behaving exactly like the embedded API (both read the transaction's own empty-valued put as absent). It is the defect D11 again; C01 catches this patch (regression replay d11-tx-reads-own-empty-put.json and the generated programs, `ryw@tx`), and C03/C04 read a transaction's own writes as well",
    "C14-10": "needs a replica that is registered but has not acknowledged anything yet (the few milliseconds between its join and the ack of its first 100-entry catch-up message) at the moment ANOTHER replica's ack makes the retention pass delete a rotated log file, and a backlog of more than 100 entries so that the joiner still has to read the deleted part from disk afterwards. C14 generates all the ingredients (two replicas, hot joins during a 2000-4000 write burst, backlogs of 101-400 entries, rotated logs), but the quick tier runs 32 cases and none placed a deleting ack inside that window. The thorough tier run against the patch (320 cases, 242 non-trivial, 377 s) did not hit it either. The extension this needs is a 'slow joiner' class (a delay in the joining replica's storage wrapper while the other replica keeps acknowledging); it was not added in the time left because a new timing-dependent class could no longer be soaked on the unchanged tree at several seeds, which every other class of C14 was",
    "C07-13": "needs a transaction commit whose log write FAILS, followed by another begin: C07's programs contain no injected I/O faults (its subject is races, crashes and hangs under concurrency on a healthy disk). The lock leaked by a failed commit is C17's business (\"no sequence of begin/commit/rollback can leave others blocked forever\", commits with a failing backend are generated there): C17's quick tier catches this patch (`blocked_forever:holder=closed_but_kept_lock:commit_failed`, 3 violations); C03's fault cases run into the leaked lock too, but there the harness's own next begin blocks, which that check reports as inconclusive (time-out, exit 2), not as a violation",
    "C13-7": "needs an atomic multi-entry batch (transaction commit / batch write) pushed by the primary; primary transactions are excluded by construction while the open finding D18 stands (replication of transactions is broken on the unchanged tree already)",
    "C15-8": "needs a multi-entry batch at the tail of a > 100 entry backlog, i.e. primary transactions: excluded by construction while D18 is open (flag primary_tx, also_excludes_in C15); no way to reach the unbounded loop without entries that share a sequence number",
}

rows = []
n = caught = first_missed = open_miss = 0
for d in sorted(glob.glob('/verif/seeded/*/')):
    name = os.path.basename(d.rstrip('/'))
    mp = os.path.join(d, 'meta.json')
    fm = os.path.join(d, 'first_evaluation_missed.json')
    if not os.path.exists(mp):
        if os.path.exists(fm):
            m = json.load(open(fm))
            brk = m.get('breaks', '')[:150].replace('|', '/').replace('\n', ' ')
            rows.append(f"| {name} | {brk} | **missed; strengthened check not evaluated yet** | {STRENGTHENED.get(name, '')} |")
            n += 1; open_miss += 1
        continue
    m = json.load(open(mp))
    r = m.get('results', {})
    det = []
    sig = ''
    for c, v in r.get('checks', {}).items():
        det.append(f"{c}: {'caught' if v.get('exit') == 1 else ('NOT caught (exit ' + str(v.get('exit')) + ')')}")
        if not sig and v.get('signatures'):
            s0 = next((x for x in v['signatures'] if not x.startswith('VIOLATION')), '')
            s0 = re.sub(r'^regression replay fails: ', '', s0)
            sig = s0.split(': ')[0][:80]
    n += 1
    ok = r.get('detected')
    if ok:
        caught += 1
    else:
        open_miss += 1
    note = ''
    if os.path.exists(fm):
        first_missed += 1
        note = 'missed at first; ' + STRENGTHENED.get(name, 'check strengthened')
    if not ok and name in NOT_CAUGHT:
        note = (note + '; ' if note else '') + NOT_CAUGHT[name]
    brk = m.get('breaks', '')[:150].replace('|', '/').replace('\n', ' ')
    res = ' '.join(det) + (f" `{sig}`" if sig and ok else '')
    rows.append(f"| {name} | {brk} | {res} | {note} |")
print(f"{n} seeded changes; {caught} caught by the quick tier of the property's own check ({first_missed} of them only after the check was strengthened); {open_miss} not caught.\n")
print("| id | change (first 150 characters of its author's summary) | quick-tier result and first signature | note |\n|---|---|---|---|")
print('\n'.join(rows))
